#!/bin/bash
# setup_cmd: build the controller and warm the build cache for the three worker variants.
cd "$(dirname "$0")" || exit 1
export GOFLAGS=-mod=mod GOPROXY=off GOSUMDB=off GOTOOLCHAIN=local
export VERIF_DIR="$PWD"
mkdir -p .build .work evidence replay
cp -f /repo/go.sum harness/go.sum
( cd harness && go build -o ../.build/verifctl ./cmd/verifctl ) || exit 1
./.build/verifctl build || exit 1
echo "setup ok"
