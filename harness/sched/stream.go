package sched

import (
	"runtime"
	"sync"
	"sync/atomic"

	simdjson "github.com/minio/simdjson-go"
)

// StreamPolicy selects how chunk completions of ParseNDStream are perturbed.
type StreamPolicy int

const (
	StreamNatural StreamPolicy = iota
	StreamReverse              // hold chunk i until up to J later chunks have been parsed
	StreamRandom               // random yields before handing over
	nStreamPolicies
)

// NStreamPolicies is the number of stream policies.
const NStreamPolicies = int(nStreamPolicies)

func (p StreamPolicy) String() string {
	return [...]string{"natural", "reverse-completion", "random-delay"}[p]
}

// Stream watches the chunk hand-off of one ParseNDStream call.
type Stream struct {
	mu         sync.Mutex
	policy     StreamPolicy
	j          int
	rnd        uint64
	byAddr     map[uint64]int // chunk buffer address -> index of the chunk queued last with it
	queued     int
	parsed     map[int]bool
	maxDone    int // highest chunk index whose parse finished
	readerDone atomic.Bool

	OutOfOrder int64 // chunks handed over after a later chunk had already been parsed
	Held       int64
	Exhausted  int64
	ParseErrs  int64
}

// NewStream creates a monitor.
func NewStream() *Stream { s := &Stream{}; s.Reset(StreamNatural, 0, 1); return s }

// Reset prepares for the next stream.
func (s *Stream) Reset(p StreamPolicy, j int, seed uint64) {
	s.mu.Lock()
	defer s.mu.Unlock()
	s.policy, s.j = p, j
	s.rnd = seed*0x9e3779b97f4a7c15 + 7
	s.byAddr = map[uint64]int{}
	s.queued = 0
	s.parsed = map[int]bool{}
	s.maxDone = -1
	s.readerDone.Store(false)
	s.OutOfOrder, s.Held, s.Exhausted, s.ParseErrs = 0, 0, 0, 0
}

// ReaderDone tells the monitor that the reader returned its final result, so
// that no later chunk can appear any more.
func (s *Stream) ReaderDone() { s.readerDone.Store(true) }

// Queued returns the number of chunks queued so far.
func (s *Stream) Queued() int {
	s.mu.Lock()
	defer s.mu.Unlock()
	return s.queued
}

func (s *Stream) rand() uint64 {
	s.rnd += 0x9e3779b97f4a7c15
	z := s.rnd
	z = (z ^ (z >> 30)) * 0xbf58476d1ce4e5b9
	z = (z ^ (z >> 27)) * 0x94d049bb133111eb
	return z ^ (z >> 31)
}

// Hook handles the chunk events (other events are ignored).
func (s *Stream) Hook(ev simdjson.VerifEvent, pj simdjson.VerifPJ, a, b uint64, buf []uint32) {
	switch ev {
	case simdjson.VerifEvChunkQueued:
		s.mu.Lock()
		s.byAddr[a] = s.queued
		s.queued++
		s.mu.Unlock()
	case simdjson.VerifEvChunkParsed:
		s.mu.Lock()
		idx, ok := s.byAddr[a]
		if !ok {
			s.mu.Unlock()
			return
		}
		if b == 1 {
			s.ParseErrs++
		}
		s.parsed[idx] = true
		if idx > s.maxDone {
			s.maxDone = idx
		}
		pol, j := s.policy, s.j
		var yields int
		if pol == StreamRandom {
			yields = int(s.rand() % 200)
		}
		s.mu.Unlock()
		switch pol {
		case StreamReverse:
			atomic.AddInt64(&s.Held, 1)
			released := false
			for i := 0; i < yieldBudget/4; i++ {
				s.mu.Lock()
				later := 0
				for k := idx + 1; k <= idx+j; k++ {
					if s.parsed[k] {
						later++
					}
				}
				// no more chunks can come once the reader is done and everything queued is parsed
				exhausted := s.readerDone.Load() && len(s.parsed) >= s.queued
				s.mu.Unlock()
				if later >= j || exhausted {
					released = true
					break
				}
				runtime.Gosched()
			}
			if !released {
				atomic.AddInt64(&s.Exhausted, 1)
			}
		case StreamRandom:
			for i := 0; i < yields; i++ {
				runtime.Gosched()
			}
		}
		s.mu.Lock()
		if s.maxDone > idx {
			s.OutOfOrder++
		}
		s.mu.Unlock()
	}
}
