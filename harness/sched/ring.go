// Package sched drives and watches the stage-1/stage-2 hand-off of the parser
// through the verif hook points: a shadow-ownership monitor of the index
// buffer ring, a content monitor, a history checker, and event-driven
// policies that force lagging-consumer / lagging-producer schedules.
package sched

import (
	"fmt"
	"runtime"
	"sync"
	"sync/atomic"

	simdjson "github.com/minio/simdjson-go"
)

// Policy selects how the hook perturbs the schedule.
type Policy int

const (
	Natural Policy = iota
	ConsumerLag
	ProducerLag
	Alternate
	Random
	nPolicies
)

func (p Policy) String() string {
	return [...]string{"natural", "consumer-lag", "producer-lag", "alternate", "random"}[p]
}

// NPolicies is the number of policies.
const NPolicies = int(nPolicies)

const yieldBudget = 400000

// Ring monitors one asynchronous parse at a time.
type Ring struct {
	mu     sync.Mutex
	policy Policy
	rnd    uint64

	slots, size int

	async      bool
	owner      []int64 // seq occupying each slot, -1 if free
	slotPtr    []*uint32
	slotBuf    [][]uint32
	snap       map[int64][]uint32 // content at Send, by seq
	sentLen    map[int64]int
	acquired   int64 // number of Acquire events
	sent       int64 // number of Send events
	recvd      int64 // number of buffers received by stage 2
	released   int64 // buffers released by stage 2
	holding    int64 // seq held by the consumer, -1 if none
	termSeen   bool
	consDone   bool // consumer received the terminator
	stage2Exit bool
	waitingRel atomic.Bool // consumer is inside Release (about to block on the channel)
	strips     int64
	sumSent    int64

	Violations    []string
	Events        int64
	liveHist      map[int]int64
	sig           uint64
	MaxLive       int
	MinLiveAtRecv int
	Stalls        int64
	Exhausted     int64
	Drains        int64
	pj            simdjson.VerifPJ
}

// NewRing creates a monitor.
func NewRing() *Ring {
	s, sz, _ := simdjson.VerifRingInfo()
	r := &Ring{slots: s, size: sz}
	r.Reset(Natural, 1)
	return r
}

// Reset prepares for the next parse.
func (r *Ring) Reset(p Policy, seed uint64) {
	r.mu.Lock()
	defer r.mu.Unlock()
	r.policy = p
	r.rnd = seed*2862933555777941757 + 3037000493
	r.async = false
	r.owner = make([]int64, r.slots)
	for i := range r.owner {
		r.owner[i] = -1
	}
	r.slotPtr = make([]*uint32, r.slots)
	r.slotBuf = make([][]uint32, r.slots)
	r.snap = map[int64][]uint32{}
	r.sentLen = map[int64]int{}
	r.acquired, r.sent, r.recvd, r.released = 0, 0, 0, 0
	r.holding = -1
	r.termSeen, r.consDone, r.stage2Exit = false, false, false
	r.waitingRel.Store(false)
	r.strips, r.sumSent = 0, 0
	r.Violations = nil
	r.Events = 0
	r.liveHist = map[int]int64{}
	r.sig = 1469598103934665603
	r.MaxLive = 0
	r.MinLiveAtRecv = 1 << 30
	r.Stalls, r.Exhausted, r.Drains = 0, 0, 0
}

func (r *Ring) violate(format string, a ...interface{}) {
	if len(r.Violations) < 20 {
		r.Violations = append(r.Violations, fmt.Sprintf(format, a...))
	}
}

func (r *Ring) live() int {
	n := 0
	for _, o := range r.owner {
		if o >= 0 {
			n++
		}
	}
	return n
}

func (r *Ring) note(kind uint64) {
	l := r.live()
	r.liveHist[l]++
	if l > r.MaxLive {
		r.MaxLive = l
	}
	r.sig = (r.sig ^ (kind<<8 | uint64(l))) * 1099511628211
}

func (r *Ring) rand() uint64 {
	r.rnd += 0x9e3779b97f4a7c15
	z := r.rnd
	z = (z ^ (z >> 30)) * 0xbf58476d1ce4e5b9
	z = (z ^ (z >> 27)) * 0x94d049bb133111eb
	return z ^ (z >> 31)
}

// Hook is the callback to install with simdjson.VerifSetHook.
func (r *Ring) Hook(ev simdjson.VerifEvent, pj simdjson.VerifPJ, a, b uint64, buf []uint32) {
	switch ev {
	case simdjson.VerifEvPath:
		r.mu.Lock()
		r.async = a == 1
		r.pj = pj
		r.Events++
		r.mu.Unlock()
		return
	case simdjson.VerifEvChunkQueued, simdjson.VerifEvChunkParsed:
		return
	}
	r.mu.Lock()
	if !r.async {
		r.Events++
		r.mu.Unlock()
		return
	}
	r.Events++
	var wait func() bool // condition to wait for (outside the lock); nil = none
	switch ev {
	case simdjson.VerifEvAcquire:
		seq, slot := int64(a), int(b)
		// forcing: producer-lag holds stage 1 here
		pol := r.policy
		r.mu.Unlock()
		switch pol {
		case ProducerLag:
			r.stall(func() bool {
				r.mu.Lock()
				defer r.mu.Unlock()
				return r.consDone || r.stage2Exit || (r.released == r.sent && r.waitingRel.Load())
			})
		case Alternate:
			r.stall(func() bool {
				r.mu.Lock()
				defer r.mu.Unlock()
				return r.consDone || r.stage2Exit || r.sent-r.recvd <= 1
			})
		case Random:
			r.yieldSome()
		}
		r.mu.Lock()
		if slot < 0 || slot >= r.slots {
			r.violate("acquire seq=%d reports slot %d outside the ring of %d", seq, slot, r.slots)
			r.mu.Unlock()
			return
		}
		if seq != r.acquired {
			r.violate("acquire sequence number %d, expected %d", seq, r.acquired)
		}
		r.acquired = seq + 1
		if o := r.owner[slot]; o >= 0 && !r.stage2Exit {
			r.violate("acquire seq=%d slot=%d while occupied by seq=%d (sent=%d received=%d released=%d, channel %s): the buffer is overwritten before stage 2 is done with it", seq, slot, o, r.sent, r.recvd, r.released, r.chanState())
		}
		r.owner[slot] = seq
		r.slotPtr[slot] = ptrOf(buf)
		r.slotBuf[slot] = buf
		r.note(1)
	case simdjson.VerifEvStrip:
		r.strips++
	case simdjson.VerifEvSend:
		seq := r.acquired - 1
		n := int(a)
		if n < 0 || n > r.size {
			r.violate("send seq=%d with length %d outside the buffer size %d", seq, n, r.size)
			n = 0
		}
		if buf != nil && n <= len(buf) {
			r.snap[seq] = append([]uint32(nil), buf[:n]...)
		}
		r.sentLen[seq] = n
		r.sumSent += int64(n)
		r.sent++
		r.note(2)
	case simdjson.VerifEvTerm:
		r.termSeen = true
	case simdjson.VerifEvRelease:
		// stage 2 is done with the buffer it holds
		if r.holding >= 0 {
			seq := r.holding
			if s, ok := r.snap[seq]; ok && !r.stage2Exit {
				cur := r.bufOf(seq)
				if cur != nil && len(cur) >= len(s) {
					for i := range s {
						if cur[i] != s[i] {
							r.violate("buffer seq=%d changed between send and release: index %d was %d, is %d (overwritten in flight)", seq, i, s[i], cur[i])
							break
						}
					}
				}
			}
			delete(r.snap, seq)
			for i, o := range r.owner {
				if o == seq {
					r.owner[i] = -1
				}
			}
			r.released++
			r.holding = -1
		}
		r.waitingRel.Store(true)
		r.note(3)
	case simdjson.VerifEvRecv:
		r.waitingRel.Store(false)
		if int64(a) == -1 {
			r.consDone = true
			r.note(5)
			r.mu.Unlock()
			return
		}
		// identify the buffer by its address
		seq := int64(-1)
		bp := ptrOf(buf)
		for i, p := range r.slotPtr {
			if p == bp && p != nil && r.owner[i] >= 0 {
				seq = r.owner[i]
			}
		}
		if seq != r.recvd {
			r.violate("stage 2 received buffer seq=%d, expected seq=%d (lost, repeated or reordered hand-off)", seq, r.recvd)
		}
		if n, ok := r.sentLen[seq]; ok && uint64(n) != b {
			r.violate("buffer seq=%d arrived with length %d, was sent with %d", seq, b, n)
		}
		r.holding = seq
		r.recvd++
		l := r.live()
		if l < r.MinLiveAtRecv {
			r.MinLiveAtRecv = l
		}
		r.note(4)
		if r.policy == ConsumerLag {
			wait = func() bool {
				r.mu.Lock()
				defer r.mu.Unlock()
				if r.termSeen {
					return true
				}
				l, c := r.pj.ChanState()
				// channel full and the producer is at (or past) the send of one more buffer
				return l == c && r.sent >= r.recvd+int64(c)+1
			}
		} else if r.policy == Alternate {
			wait = func() bool {
				r.mu.Lock()
				defer r.mu.Unlock()
				return r.termSeen || r.sent > r.recvd
			}
		}
	case simdjson.VerifEvStage2Exit:
		r.stage2Exit = true
		r.Drains++
		for i := range r.owner {
			r.owner[i] = -1
		}
	}
	pol := r.policy
	r.mu.Unlock()
	if wait != nil {
		r.stall(wait)
	} else if pol == Random && (ev == simdjson.VerifEvRecv || ev == simdjson.VerifEvSend) {
		r.yieldSome()
	}
}

func (r *Ring) chanState() string {
	l, c := r.pj.ChanState()
	return fmt.Sprintf("%d/%d", l, c)
}

func (r *Ring) bufOf(seq int64) []uint32 {
	for i, o := range r.owner {
		if o == seq {
			return r.slotBuf[i]
		}
	}
	return nil
}

func ptrOf(b []uint32) *uint32 {
	if len(b) == 0 {
		return nil
	}
	return &b[0]
}

// stall yields until cond holds, bounded by a yield budget: the controller can
// delay a live program but never turn it into a deadlocked one.
func (r *Ring) stall(cond func() bool) {
	atomic.AddInt64(&r.Stalls, 1)
	for i := 0; i < yieldBudget; i++ {
		if cond() {
			return
		}
		runtime.Gosched()
	}
	atomic.AddInt64(&r.Exhausted, 1)
}

func (r *Ring) yieldSome() {
	r.mu.Lock()
	n := int(r.rand() % 24)
	if r.rand()%8 == 0 {
		n += 300
	}
	r.mu.Unlock()
	for i := 0; i < n; i++ {
		runtime.Gosched()
	}
}

// Summary is what the monitor saw during one parse.
type Summary struct {
	Async      bool
	Buffers    int64
	Received   int64
	Strips     int64
	SumSent    int64
	TermSeen   bool
	ConsDone   bool
	Stage2Exit bool
	MaxLive    int
	MinLive    int
	Signature  uint64
	Events     int64
	Stalls     int64
	Exhausted  int64
	Violations []string
	LiveHist   map[int]int64
	Slots      int
}

// Finish runs the end-of-parse history checks and returns the summary.
// ok reports whether the parse succeeded.
func (r *Ring) Finish(ok bool) Summary {
	r.mu.Lock()
	defer r.mu.Unlock()
	if r.async {
		if !r.termSeen {
			r.violate("stage 1 returned without sending the terminator")
		}
		if ok {
			if r.recvd != r.sent {
				r.violate("successful parse: %d buffers sent, %d received", r.sent, r.recvd)
			}
			if !r.consDone {
				r.violate("successful parse but stage 2 never saw the terminator")
			}
		}
		if l, _ := r.pj.ChanState(); l != 0 {
			r.violate("index channel still holds %d entries after the call returned", l)
		}
	}
	min := r.MinLiveAtRecv
	if min == 1<<30 {
		min = 0
	}
	return Summary{Async: r.async, Buffers: r.sent, Received: r.recvd, Strips: r.strips, SumSent: r.sumSent, TermSeen: r.termSeen, ConsDone: r.consDone,
		Stage2Exit: r.stage2Exit, MaxLive: r.MaxLive, MinLive: min, Signature: r.sig, Events: r.Events, Stalls: atomic.LoadInt64(&r.Stalls), Exhausted: atomic.LoadInt64(&r.Exhausted),
		Violations: append([]string(nil), r.Violations...), LiveHist: r.liveHist, Slots: r.slots}
}
