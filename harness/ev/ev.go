// Package ev is the worker-side bookkeeping: the crash journal, counters,
// distinct-case accounting, samples and violation records that the controller
// merges into evidence and replay files.
package ev

import (
	"encoding/binary"
	"encoding/json"
	"fmt"
	"os"
	"sort"
	"sync"
	"syscall"
)

// Case is a replayable description of one judged case.
type Case struct {
	Gen   string `json:"gen"`             // generator / sub-monitor id
	Input []byte `json:"input,omitempty"` // primary input bytes, when they are the case
	A     int64  `json:"a,omitempty"`     // generator specific parameters
	B     int64  `json:"b,omitempty"`
	C     int64  `json:"c,omitempty"`
	D     int64  `json:"d,omitempty"`
	Text  string `json:"text,omitempty"` // printable rendering / extra parameters
}

// Violation is one refuting observation.
type Violation struct {
	Key    string `json:"key"`    // witness key: sub-monitor/call site/minimised input
	Detail string `json:"detail"` // what was observed vs expected
	Case   *Case  `json:"case"`
	Count  int    `json:"count"` // how many cases hit this key
}

// Output is what a worker leaves behind for the controller.
type Output struct {
	Property     string                 `json:"property"`
	Mode         string                 `json:"mode"`
	Variant      string                 `json:"variant"`
	Tier         string                 `json:"tier"`
	Seed         uint64                 `json:"seed"`
	Shard        int                    `json:"shard"`
	NShards      int                    `json:"nshards"`
	Evaluations  int64                  `json:"evaluations"`
	DistinctCons int64                  `json:"distinct_by_construction"`
	HashFile     string                 `json:"hash_file,omitempty"`
	HashCount    int                    `json:"hash_count"`
	HashCapped   bool                   `json:"hash_capped"`
	Counters     map[string]int64       `json:"counters"`
	Maxima       map[string]int64       `json:"maxima"`
	Sets         map[string][]string    `json:"sets"`
	Samples      []interface{}          `json:"samples"`
	Violations   []*Violation           `json:"violations"`
	ViolTotal    int64                  `json:"violations_total"`
	Oracle       []*Violation           `json:"oracle_disagreements"`
	Inconclusive []string               `json:"inconclusive"`
	Exhaustive   map[string]int64       `json:"exhaustive_subspaces"`
	Extra        map[string]interface{} `json:"extra,omitempty"`
	Done         bool                   `json:"done"`
}

const journalSize = 48 << 20
const hashCap = 3 << 20

// Ctx is the per-worker context.
type Ctx struct {
	Out     Output
	OutPath string

	mu       sync.Mutex
	journal  []byte
	hashes   map[uint64]struct{}
	violByK  map[string]*Violation
	oracByK  map[string]*Violation
	sets     map[string]map[string]struct{}
	sampleN  int
	MaxViol  int
	replayed bool

	seq       int64 // number of journaled cases so far
	SkipUntil int64 // cases with seq <= SkipUntil are not re-executed (resume after a death)
	lastCkpt  int64
}

// NewCtx opens the journal (if path non-empty).
func NewCtx(prop, mode, variant, tier string, seed uint64, shard, nshards int, outPath, journalPath string) (*Ctx, error) {
	c := &Ctx{OutPath: outPath, MaxViol: 40}
	c.Out = Output{Property: prop, Mode: mode, Variant: variant, Tier: tier, Seed: seed, Shard: shard, NShards: nshards,
		Counters: map[string]int64{}, Maxima: map[string]int64{}, Exhaustive: map[string]int64{}, Extra: map[string]interface{}{}}
	c.hashes = make(map[uint64]struct{})
	c.violByK = map[string]*Violation{}
	c.oracByK = map[string]*Violation{}
	c.sets = map[string]map[string]struct{}{}
	if journalPath != "" {
		f, err := os.OpenFile(journalPath, os.O_RDWR|os.O_CREATE|os.O_TRUNC, 0o644)
		if err != nil {
			return nil, err
		}
		if err := f.Truncate(journalSize); err != nil {
			return nil, err
		}
		m, err := syscall.Mmap(int(f.Fd()), 0, journalSize, syscall.PROT_READ|syscall.PROT_WRITE, syscall.MAP_SHARED)
		f.Close()
		if err != nil {
			return nil, err
		}
		c.journal = m
	}
	return c, nil
}

// Journal records the case about to be executed so that it survives the
// death of the process. A memory store only; no syscall.
func (c *Ctx) Journal(cs *Case) {
	c.seq++
	j := c.journal
	if j == nil {
		return
	}
	cs.D = c.seq
	// layout: [8 valid=0][fields...] then set valid=1
	binary.LittleEndian.PutUint64(j[0:], 0)
	p := 8
	put := func(b []byte) {
		binary.LittleEndian.PutUint64(j[p:], uint64(len(b)))
		p += 8
		copy(j[p:], b)
		p += len(b)
	}
	binary.LittleEndian.PutUint64(j[p:], uint64(cs.A))
	binary.LittleEndian.PutUint64(j[p+8:], uint64(cs.B))
	binary.LittleEndian.PutUint64(j[p+16:], uint64(cs.C))
	binary.LittleEndian.PutUint64(j[p+24:], uint64(cs.D))
	p += 32
	put([]byte(cs.Gen))
	t := cs.Text
	if len(t) > 1<<20 {
		t = t[:1<<20]
	}
	put([]byte(t))
	in := cs.Input
	trunc := uint64(0)
	if len(in) > journalSize-p-64 {
		in = in[:journalSize-p-64]
		trunc = 1
	}
	put(in)
	binary.LittleEndian.PutUint64(j[p:], trunc)
	binary.LittleEndian.PutUint64(j[0:], 1)
}

// Skip reports whether the case journaled last must be skipped because an
// earlier incarnation of this shard already executed (or died on) it.
func (c *Ctx) Skip() bool { return c.seq <= c.SkipUntil }

// JournalText records only a textual marker (for phases without one input).
func (c *Ctx) JournalText(gen, text string) {
	c.Journal(&Case{Gen: gen, Text: text})
}

// ReadJournal decodes a journal file written by a dead worker.
func ReadJournal(path string) (*Case, bool, error) {
	f, err := os.Open(path)
	if err != nil {
		return nil, false, err
	}
	defer f.Close()
	hdr := make([]byte, 8+32+8)
	if _, err := f.ReadAt(hdr, 0); err != nil {
		return nil, false, err
	}
	if binary.LittleEndian.Uint64(hdr) != 1 {
		return nil, false, fmt.Errorf("journal empty or torn")
	}
	cs := &Case{}
	cs.A = int64(binary.LittleEndian.Uint64(hdr[8:]))
	cs.B = int64(binary.LittleEndian.Uint64(hdr[16:]))
	cs.C = int64(binary.LittleEndian.Uint64(hdr[24:]))
	cs.D = int64(binary.LittleEndian.Uint64(hdr[32:]))
	p := int64(40)
	get := func() ([]byte, error) {
		var l [8]byte
		if _, err := f.ReadAt(l[:], p); err != nil {
			return nil, err
		}
		n := int64(binary.LittleEndian.Uint64(l[:]))
		if n < 0 || n > journalSize {
			return nil, fmt.Errorf("journal field length %d", n)
		}
		b := make([]byte, n)
		if _, err := f.ReadAt(b, p+8); err != nil {
			return nil, err
		}
		p += 8 + n
		return b, nil
	}
	g, err := get()
	if err != nil {
		return nil, false, err
	}
	t, err := get()
	if err != nil {
		return nil, false, err
	}
	in, err := get()
	if err != nil {
		return nil, false, err
	}
	var l [8]byte
	f.ReadAt(l[:], p)
	cs.Gen, cs.Text, cs.Input = string(g), string(t), in
	return cs, binary.LittleEndian.Uint64(l[:]) == 1, nil
}

// Eval counts oracle judgements.
func (c *Ctx) Eval(n int) {
	c.mu.Lock()
	c.Out.Evaluations += int64(n)
	ck := c.Out.Evaluations-c.lastCkpt >= 1<<18
	if ck {
		c.lastCkpt = c.Out.Evaluations
	}
	c.mu.Unlock()
	if ck {
		c.checkpoint()
	}
}

// Checkpoint makes the counters so far survive a death of the process.
func (c *Ctx) Checkpoint() { c.checkpoint() }

// checkpoint rewrites the output file (Done=false) so that counters survive a death.
func (c *Ctx) checkpoint() {
	if c.OutPath == "" {
		return
	}
	c.mu.Lock()
	c.Out.HashCount = len(c.hashes)
	b, err := json.Marshal(&c.Out)
	c.mu.Unlock()
	if err == nil {
		tmp := c.OutPath + ".tmp"
		if os.WriteFile(tmp, b, 0o644) == nil {
			os.Rename(tmp, c.OutPath)
		}
	}
}

// Nontrivial records one non-trivial case by content hash.
func (c *Ctx) Nontrivial(h uint64) {
	c.mu.Lock()
	if len(c.hashes) < hashCap {
		c.hashes[h] = struct{}{}
	} else {
		c.Out.HashCapped = true
	}
	c.mu.Unlock()
}

// NontrivialN records n cases that are distinct by construction (an
// enumeration without repetition).
func (c *Ctx) NontrivialN(n int) {
	c.mu.Lock()
	c.Out.DistinctCons += int64(n)
	c.mu.Unlock()
}

// Count adds to a named counter.
func (c *Ctx) Count(name string, n int) {
	c.mu.Lock()
	c.Out.Counters[name] += int64(n)
	c.mu.Unlock()
}

// Max keeps the maximum of a named observation.
func (c *Ctx) Max(name string, v int64) {
	c.mu.Lock()
	if old, ok := c.Out.Maxima[name]; !ok || v > old {
		c.Out.Maxima[name] = v
	}
	c.mu.Unlock()
}

// SetAdd records a member of a named set of observed classes (bounded).
func (c *Ctx) SetAdd(name, member string) {
	c.mu.Lock()
	s := c.sets[name]
	if s == nil {
		s = map[string]struct{}{}
		c.sets[name] = s
	}
	if len(s) < 4096 {
		s[member] = struct{}{}
	}
	c.mu.Unlock()
}

// Exhaustive notes a finite sub-space that was enumerated completely.
func (c *Ctx) Exhaustive(name string, size int64) {
	c.mu.Lock()
	c.Out.Exhaustive[name] += size
	c.mu.Unlock()
}

// Sample keeps a few actual cases.
func (c *Ctx) Sample(s interface{}) {
	c.mu.Lock()
	c.sampleN++
	if len(c.Out.Samples) < 6 {
		c.Out.Samples = append(c.Out.Samples, s)
	} else if c.sampleN%9973 == 0 {
		c.Out.Samples[c.sampleN/9973%6] = s
	}
	c.mu.Unlock()
}

// WantSample says whether a sample would currently be kept (to avoid
// building expensive renderings).
func (c *Ctx) WantSample() bool {
	c.mu.Lock()
	defer c.mu.Unlock()
	return len(c.Out.Samples) < 6 || (c.sampleN+1)%9973 == 0
}

// Violation records a refuting observation under a witness key.
func (c *Ctx) Violation(key, detail string, cs *Case) {
	c.mu.Lock()
	defer c.mu.Unlock()
	c.Out.ViolTotal++
	if v := c.violByK[key]; v != nil {
		v.Count++
		return
	}
	if len(c.violByK) >= c.MaxViol {
		return
	}
	cp := *cs
	cp.Input = append([]byte{}, cs.Input...)
	v := &Violation{Key: key, Detail: detail, Case: &cp, Count: 1}
	c.violByK[key] = v
	c.Out.Violations = append(c.Out.Violations, v)
	if c.OutPath != "" {
		// append immediately: a later death of this process must not lose it
		if f, err := os.OpenFile(c.OutPath+".viol.jsonl", os.O_APPEND|os.O_CREATE|os.O_WRONLY, 0o644); err == nil {
			if b, err := json.Marshal(v); err == nil {
				f.Write(append(b, '\n'))
			}
			f.Close()
		}
	}
	if c.replayed {
		fmt.Printf("REPLAY-VIOLATION key=%s\n  %s\n", key, detail)
	}
}

// OracleDisagreement records that the oracles disagree among themselves: a
// harness defect, never a verdict about the library.
func (c *Ctx) OracleDisagreement(key, detail string, cs *Case) {
	c.mu.Lock()
	defer c.mu.Unlock()
	if v := c.oracByK[key]; v != nil {
		v.Count++
		return
	}
	if len(c.oracByK) >= 20 {
		return
	}
	cp := *cs
	cp.Input = append([]byte{}, cs.Input...)
	v := &Violation{Key: key, Detail: detail, Case: &cp, Count: 1}
	c.oracByK[key] = v
	c.Out.Oracle = append(c.Out.Oracle, v)
}

// Inconclusive notes a reason this shard cannot give a verdict.
func (c *Ctx) Inconclusive(reason string) {
	c.mu.Lock()
	c.Out.Inconclusive = append(c.Out.Inconclusive, reason)
	c.mu.Unlock()
}

// SetReplay makes violations print as they are found.
func (c *Ctx) SetReplay() { c.replayed = true }

// Finish writes the output file (and the hash file next to it).
func (c *Ctx) Finish() error {
	c.mu.Lock()
	defer c.mu.Unlock()
	c.Out.Done = true
	c.Out.Sets = map[string][]string{}
	for k, s := range c.sets {
		var l []string
		for m := range s {
			l = append(l, m)
		}
		sort.Strings(l)
		c.Out.Sets[k] = l
	}
	c.Out.HashCount = len(c.hashes)
	if c.OutPath == "" {
		return nil
	}
	if len(c.hashes) > 0 {
		hp := c.OutPath + ".hashes"
		buf := make([]byte, 0, len(c.hashes)*8)
		var t [8]byte
		for h := range c.hashes {
			binary.LittleEndian.PutUint64(t[:], h)
			buf = append(buf, t[:]...)
		}
		if err := os.WriteFile(hp, buf, 0o644); err != nil {
			return err
		}
		c.Out.HashFile = hp
	}
	b, err := json.Marshal(&c.Out)
	if err != nil {
		return err
	}
	tmp := c.OutPath + ".tmp"
	if err := os.WriteFile(tmp, b, 0o644); err != nil {
		return err
	}
	return os.Rename(tmp, c.OutPath)
}
