// Package walk extracts the document a ParsedJson exposes, through several
// independent routes of the public API, as ref.Value trees.
package walk

import (
	"errors"
	"fmt"
	"math"
	"runtime/debug"

	simdjson "github.com/minio/simdjson-go"

	"verifharness/ref"
)

// ErrSteps is returned when a traversal exceeded its step bound.
var ErrSteps = errors.New("traversal exceeded step bound")

// PanicError records a recovered panic.
type PanicError struct {
	Val   interface{}
	Stack string
}

func (p *PanicError) Error() string { return fmt.Sprintf("panic: %v", p.Val) }

// Guard runs fn, turning a panic into a *PanicError.
func Guard(fn func() error) (err error) {
	defer func() {
		if r := recover(); r != nil {
			err = &PanicError{Val: r, Stack: string(debug.Stack())}
		}
	}()
	return fn()
}

// IsPanic reports whether err is a recovered panic.
func IsPanic(err error) bool {
	var p *PanicError
	return errors.As(err, &p)
}

func scalar(it *simdjson.Iter, t simdjson.Type) (*ref.Value, error) {
	switch t {
	case simdjson.TypeNull:
		return &ref.Value{K: ref.Null}, nil
	case simdjson.TypeBool:
		b, err := it.Bool()
		if err != nil {
			return nil, err
		}
		if b {
			return &ref.Value{K: ref.True}, nil
		}
		return &ref.Value{K: ref.False}, nil
	case simdjson.TypeInt:
		v, err := it.Int()
		if err != nil {
			return nil, err
		}
		return &ref.Value{K: ref.Int, I: v}, nil
	case simdjson.TypeUint:
		v, err := it.Uint()
		if err != nil {
			return nil, err
		}
		return &ref.Value{K: ref.Uint, U: v}, nil
	case simdjson.TypeFloat:
		v, fl, err := it.FloatFlags()
		if err != nil {
			return nil, err
		}
		return &ref.Value{K: ref.Float, F: v, Flag: fl.Contains(simdjson.FloatOverflowedInteger)}, nil
	case simdjson.TypeString:
		b, err := it.StringBytes()
		if err != nil {
			return nil, err
		}
		s, err := it.String()
		if err != nil {
			return nil, err
		}
		if s != string(b) {
			return nil, fmt.Errorf("String() %q != StringBytes() %q", s, b)
		}
		Hold("Iter.String", s)
		return &ref.Value{K: ref.String, S: append([]byte{}, b...)}, nil
	}
	return nil, fmt.Errorf("unexpected scalar type %v", t)
}

type intoFrame struct {
	kind byte // 'r', '[', '{'
	v    *ref.Value
	key  []byte
	have bool
}

// Into walks the whole tape with AdvanceInto and the typed accessors.
func Into(pj *simdjson.ParsedJson) (roots []*ref.Value, err error) {
	err = Guard(func() error {
		it := pj.Iter()
		return intoIter(&it, len(pj.Tape)+2, &roots, false)
	})
	return
}

// IntoValue walks an iterator that is positioned ON a value (its current tag
// is that value) and whose scope ends with that value.
func IntoValue(it simdjson.Iter) (v *ref.Value, err error) {
	var roots []*ref.Value
	err = Guard(func() error {
		return intoIter(&it, 1<<40, &roots, true)
	})
	if err == nil {
		if len(roots) != 1 {
			return nil, fmt.Errorf("IntoValue: %d values in scope", len(roots))
		}
		v = roots[0]
	}
	return
}

// intoIter: if current is true the iterator's current tag is consumed first.
func intoIter(it *simdjson.Iter, bound int, roots *[]*ref.Value, current bool) error {
	var stack []intoFrame
	steps := 0
	add := func(v *ref.Value) error {
		if len(stack) == 0 {
			if !current {
				return errors.New("value outside root")
			}
			*roots = append(*roots, v)
			return nil
		}
		top := &stack[len(stack)-1]
		switch top.kind {
		case 'r':
			if top.v != nil {
				return errors.New("two values in one root")
			}
			top.v = v
		case '[':
			top.v.A = append(top.v.A, v)
		case '{':
			if !top.have {
				return errors.New("object value without key")
			}
			top.v.Keys = append(top.v.Keys, top.key)
			top.v.Vals = append(top.v.Vals, v)
			top.have = false
			top.key = nil
		}
		return nil
	}
	first := current
	for {
		var tag simdjson.Tag
		if first {
			first = false
			tag = typeTag(it)
		} else {
			tag = it.AdvanceInto()
		}
		steps++
		if steps > bound {
			return ErrSteps
		}
		switch tag {
		case simdjson.TagEnd:
			if len(stack) != 0 {
				return fmt.Errorf("tape ended with %d open scopes", len(stack))
			}
			return nil
		case simdjson.TagRoot:
			if len(stack) > 0 && stack[len(stack)-1].kind == 'r' {
				top := stack[len(stack)-1]
				stack = stack[:len(stack)-1]
				if top.v == nil {
					return errors.New("empty root")
				}
				*roots = append(*roots, top.v)
				continue
			}
			if len(stack) != 0 {
				return errors.New("root inside container")
			}
			stack = append(stack, intoFrame{kind: 'r'})
		case simdjson.TagObjectStart:
			stack = append(stack, intoFrame{kind: '{', v: &ref.Value{K: ref.Object}})
		case simdjson.TagArrayStart:
			stack = append(stack, intoFrame{kind: '[', v: &ref.Value{K: ref.Array}})
		case simdjson.TagObjectEnd, simdjson.TagArrayEnd:
			if len(stack) == 0 {
				return errors.New("close without open")
			}
			top := stack[len(stack)-1]
			want := byte('{')
			if tag == simdjson.TagArrayEnd {
				want = '['
			}
			if top.kind != want {
				return fmt.Errorf("mismatched close %c for %c", byte(tag), top.kind)
			}
			if top.kind == '{' && top.have {
				return errors.New("object key without value")
			}
			stack = stack[:len(stack)-1]
			if err := add(top.v); err != nil {
				return err
			}
			if current && len(stack) == 0 {
				// scope of a single value is complete
				if it.PeekNextTag() != simdjson.TagEnd {
					return errors.New("scope continues after the value")
				}
				return nil
			}
		case simdjson.TagString:
			if len(stack) > 0 && stack[len(stack)-1].kind == '{' && !stack[len(stack)-1].have {
				b, err := it.StringBytes()
				if err != nil {
					return err
				}
				stack[len(stack)-1].key = append([]byte{}, b...)
				stack[len(stack)-1].have = true
				continue
			}
			v, err := scalar(it, simdjson.TypeString)
			if err != nil {
				return err
			}
			if err := add(v); err != nil {
				return err
			}
		case simdjson.TagInteger, simdjson.TagUint, simdjson.TagFloat, simdjson.TagNull, simdjson.TagBoolTrue, simdjson.TagBoolFalse:
			if it.Type() != tag.Type() {
				return fmt.Errorf("Iter.Type() %v != tag type %v", it.Type(), tag.Type())
			}
			v, err := scalar(it, tag.Type())
			if err != nil {
				return err
			}
			if err := add(v); err != nil {
				return err
			}
		default:
			return fmt.Errorf("unexpected tag %q", byte(tag))
		}
		if current && len(stack) == 0 && len(*roots) == 1 {
			if it.PeekNextTag() != simdjson.TagEnd {
				return errors.New("scope continues after the value")
			}
			return nil
		}
	}
}

// typeTag maps the iterator's current Type back to the tag to process.
func typeTag(it *simdjson.Iter) simdjson.Tag {
	switch it.Type() {
	case simdjson.TypeObject:
		return simdjson.TagObjectStart
	case simdjson.TypeArray:
		return simdjson.TagArrayStart
	case simdjson.TypeString:
		return simdjson.TagString
	case simdjson.TypeInt:
		return simdjson.TagInteger
	case simdjson.TypeUint:
		return simdjson.TagUint
	case simdjson.TypeFloat:
		return simdjson.TagFloat
	case simdjson.TypeNull:
		return simdjson.TagNull
	case simdjson.TypeBool:
		if b, _ := it.Bool(); b {
			return simdjson.TagBoolTrue
		}
		return simdjson.TagBoolFalse
	case simdjson.TypeRoot:
		return simdjson.TagRoot
	}
	return simdjson.TagEnd
}

type advFrame struct {
	isObj bool
	obj   *simdjson.Object
	arr   simdjson.Iter
	v     *ref.Value
	key   []byte
	into  *ref.Value // the same container read linearly from the member iterator (some members), or nil
}

// Adv walks with Iter.Advance, Root, Array/Object, Array.Iter and
// Object.NextElementBytes / NextElement (alternating).
func Adv(pj *simdjson.ParsedJson) (roots []*ref.Value, err error) {
	err = Guard(func() error {
		it := pj.Iter()
		bound := len(pj.Tape) + 2
		steps := 0
		for {
			t := it.Advance()
			steps++
			if steps > bound {
				return ErrSteps
			}
			if t == simdjson.TypeNone {
				return nil
			}
			if t != simdjson.TypeRoot {
				return fmt.Errorf("top-level Advance gave %v", t)
			}
			var rdst *simdjson.Iter
			if SharedDst {
				rdst = &rootDst // recycled across roots and documents: Root must rebind it completely
			}
			ct, ri, err := it.Root(rdst)
			if err != nil {
				return err
			}
			v, err := advValue(ri, ct, &steps, bound)
			if err != nil {
				return err
			}
			roots = append(roots, v)
			if ct != simdjson.TypeObject && ct != simdjson.TypeArray {
				// a root holds one value: after a scalar (e.g. a container replaced by null)
				// the root's own iterator has nothing more
				if t2 := ri.Advance(); t2 != simdjson.TypeNone {
					return fmt.Errorf("root iterator yields %v after the root's only value", t2)
				}
			} else if rdst != nil {
				// leave the recycled iterator in the middle of a walk (pending skip of a multi-word
				// element): the next Root(rdst) has to reset it
				for i := 0; i < 3; i++ {
					if ri.Advance() == simdjson.TypeNone {
						break
					}
				}
			}
		}
	})
	return
}

// AdvValue extracts the value an iterator is positioned on via the Advance route.
func AdvValue(it simdjson.Iter) (v *ref.Value, err error) {
	err = Guard(func() error {
		steps := 0
		var e error
		v, e = advValue(&it, it.Type(), &steps, 1<<40)
		return e
	})
	return
}

func advValue(it *simdjson.Iter, t simdjson.Type, steps *int, bound int) (*ref.Value, error) {
	var stack []advFrame
	var result *ref.Value
	open := func(it *simdjson.Iter, t simdjson.Type) (*ref.Value, error) {
		switch t {
		case simdjson.TypeObject:
			// destinations are recycled across documents (per nesting depth): an Object/Array
			// handed back in must be rebound completely, whatever it pointed at before
			o, err := it.Object(dstObj(len(stack)))
			if err != nil {
				return nil, err
			}
			v := &ref.Value{K: ref.Object}
			stack = append(stack, advFrame{isObj: true, obj: o, v: v})
			return nil, nil
		case simdjson.TypeArray:
			a, err := it.Array(dstArr(len(stack)))
			if err != nil {
				return nil, err
			}
			v := &ref.Value{K: ref.Array}
			stack = append(stack, advFrame{arr: a.Iter(), v: v})
			return nil, nil
		case simdjson.TypeNone, simdjson.TypeRoot:
			return nil, fmt.Errorf("unexpected type %v where a value was expected", t)
		}
		return scalar(it, t)
	}
	attach := func(v *ref.Value) {
		if len(stack) == 0 {
			result = v
			return
		}
		top := &stack[len(stack)-1]
		if top.isObj {
			top.v.Keys = append(top.v.Keys, top.key)
			top.v.Vals = append(top.v.Vals, v)
			top.key = nil
		} else {
			top.v.A = append(top.v.A, v)
		}
	}
	v, err := open(it, t)
	if err != nil {
		return nil, err
	}
	if v != nil {
		return v, nil
	}
	for len(stack) > 0 {
		*steps++
		if *steps > bound {
			return nil, ErrSteps
		}
		top := &stack[len(stack)-1]
		if top.isObj {
			// the destination iterator of NextElement(Bytes) is recycled too (per nesting depth, across
			// members and across documents: a long-lived Iter that last looked at another document,
			// possibly one that lived in the same, since reused, ParsedJson)
			var fresh simdjson.Iter
			elemp := &fresh
			if d := len(stack) - 1; SharedDst && d < len(advElemPool) {
				elemp = &advElemPool[d]
			}
			var name []byte
			var et simdjson.Type
			var err error
			if *steps&1 == 0 {
				name, et, err = top.obj.NextElementBytes(elemp)
			} else {
				var sname string
				sname, et, err = top.obj.NextElement(elemp)
				name = []byte(sname)
				Hold("Object.NextElement", sname)
			}
			if err != nil {
				return nil, err
			}
			if et == simdjson.TypeNone {
				done, lin := top.v, top.into
				stack = stack[:len(stack)-1]
				if lin != nil {
					if d := ref.Diff(done, lin); d != "" {
						return nil, fmt.Errorf("a member read through Object/Array differs from the same member walked with AdvanceInto from the iterator NextElement(Bytes) filled: %s", d)
					}
				}
				attach(done)
				continue
			}
			top.key = append([]byte{}, name...)
			// a look ahead on the recycled iterator itself, not followed by an advance on it: a read
			// that must leave nothing behind for the next member the iterator is pointed at
			elemp.PeekNextTag()
			elem := *elemp
			var linear *ref.Value
			if (et == simdjson.TypeObject || et == simdjson.TypeArray) && len(stack) <= 3 && *steps%3 == 0 {
				// the member iterator's scope is this one value: walking it with AdvanceInto must
				// give the same container as the Object/Array route below
				lv, lerr := IntoValue(elem)
				if lerr != nil {
					return nil, fmt.Errorf("AdvanceInto walk of the member iterator NextElement(Bytes) filled: %v", lerr)
				}
				linear = lv
			}
			v, err := open(&elem, et)
			if linear != nil && v == nil && err == nil {
				stack[len(stack)-1].into = linear
			}
			if err != nil {
				return nil, err
			}
			if v != nil {
				attach(v)
			}
			continue
		}
		et := top.arr.Advance()
		if et == simdjson.TypeNone {
			done, lin := top.v, top.into
			stack = stack[:len(stack)-1]
			if lin != nil {
				if d := ref.Diff(done, lin); d != "" {
					return nil, fmt.Errorf("a member read through Object/Array differs from the same member walked with AdvanceInto from the iterator NextElement(Bytes) filled: %s", d)
				}
			}
			attach(done)
			continue
		}
		cp := top.arr
		v, err := open(&cp, et)
		if err != nil {
			return nil, err
		}
		if v != nil {
			attach(v)
		}
	}
	return result, nil
}

// IterCB walks with ParsedJson.ForEach, Array.ForEach, Object.ForEach(nil)
// and AdvanceIter. It recurses by nesting depth; callers bound the depth.
func IterCB(pj *simdjson.ParsedJson) (roots []*ref.Value, err error) {
	err = Guard(func() error {
		calls := 0
		err := pj.ForEach(func(i simdjson.Iter) error {
			// one callback per root: more callbacks than tape entries means ForEach is cycling
			if calls++; calls > len(pj.Tape)+2 {
				return ErrSteps
			}
			v, err := iterValue(&i, i.Type(), 0)
			if err != nil {
				return err
			}
			roots = append(roots, v)
			return nil
		})
		if err != nil {
			return err
		}
		// the self-aliased descent: root, then the root's value, both in the receiver itself
		if len(roots) > 0 {
			self := pj.Iter()
			st, serr := self.AdvanceIter(&self)
			if serr != nil || st != simdjson.TypeRoot {
				return fmt.Errorf("AdvanceIter(dst == receiver) on a fresh iterator gives (%v, %v)", st, serr)
			}
			st, serr = self.AdvanceIter(&self)
			if serr != nil {
				return fmt.Errorf("second AdvanceIter(dst == receiver) gives (%v, %v)", st, serr)
			}
			if d := shallowDiff(&self, st, roots[0]); d != "" {
				return fmt.Errorf("AdvanceIter(dst == receiver) into the first root exposes a different value: %s", d)
			}
		}
		// the same through Root + AdvanceIter: each root iterator yields its one value, then the end
		it := pj.Iter()
		for n := 0; it.Advance() == simdjson.TypeRoot; n++ {
			if n >= len(roots) {
				return fmt.Errorf("Advance finds more roots than ForEach (%d)", len(roots))
			}
			ct, ri, err := it.Root(nil)
			if err != nil {
				return err
			}
			if ct == simdjson.TypeObject || ct == simdjson.TypeArray {
				continue // AdvanceIter would step into the container
			}
			// Root() leaves the iterator on the scalar (e.g. a container replaced by null, followed
			// by deleted entries up to the end of the root's tape): nothing follows
			var elem simdjson.Iter
			t2, err := ri.AdvanceIter(&elem)
			if err != nil || t2 != simdjson.TypeNone {
				return fmt.Errorf("AdvanceIter past the scalar value of root %d gives (%v, %v)", n, t2, err)
			}
		}
		return nil
	})
	return
}

// IterValue extracts via the callback route from an iterator positioned on a value.
func IterValue(it simdjson.Iter) (v *ref.Value, err error) {
	err = Guard(func() error {
		var e error
		v, e = iterValue(&it, it.Type(), 0)
		return e
	})
	return
}

func iterValue(it *simdjson.Iter, t simdjson.Type, depth int) (*ref.Value, error) {
	switch t {
	case simdjson.TypeObject:
		o, err := it.Object(nil)
		if err != nil {
			return nil, err
		}
		v := &ref.Value{K: ref.Object}
		var inner error
		err = o.ForEach(func(key []byte, i simdjson.Iter) {
			if inner != nil {
				return
			}
			c, e := iterValue(&i, i.Type(), depth+1)
			if e != nil {
				inner = e
				return
			}
			v.Keys = append(v.Keys, append([]byte{}, key...))
			v.Vals = append(v.Vals, c)
		}, nil)
		if err != nil {
			return nil, err
		}
		if inner != nil {
			return nil, inner
		}
		return v, nil
	case simdjson.TypeArray:
		a, err := it.Array(nil)
		if err != nil {
			return nil, err
		}
		v := &ref.Value{K: ref.Array}
		if depth%2 == 0 {
			var inner error
			a.ForEach(func(i simdjson.Iter) {
				if inner != nil {
					return
				}
				c, e := iterValue(&i, i.Type(), depth+1)
				if e != nil {
					inner = e
					return
				}
				v.A = append(v.A, c)
			})
			if inner != nil {
				return nil, inner
			}
			return v, nil
		}
		ai := a.Iter()
		// the destination of AdvanceIter is recycled as well (per nesting depth, across arrays and
		// documents): it last looked at another array, possibly of a document that lived in the
		// same, since reused, ParsedJson
		var freshElem simdjson.Iter
		elemp := &freshElem
		if SharedDst && depth < len(iterElemPool) {
			elemp = &iterElemPool[depth]
		}
		for {
			before := ai
			et, err := ai.AdvanceIter(elemp)
			elem := *elemp
			if err != nil {
				return nil, err
			}
			if et == simdjson.TypeNone {
				break
			}
			after := elem
			c, e := iterValue(&elem, et, depth+1)
			if e != nil {
				return nil, e
			}
			v.A = append(v.A, c)
			// the documented self-aliased form ("if dst and i are the same, both will contain the value
			// inside") must land on the same element: first element and every fifth after it
			if n := len(v.A) - 1; n%5 == 0 {
				st, serr := before.AdvanceIter(&before)
				if serr != nil || st != et {
					return nil, fmt.Errorf("AdvanceIter(dst == receiver) gives (%v, %v) where a separate destination gives (%v, nil)", st, serr, et)
				}
				// compared one level deep (members/elements with their kinds; scalars in full): re-walking
				// whole subtrees here would be exponential in the nesting depth
				if d := shallowDiff(&before, st, c); d != "" {
					return nil, fmt.Errorf("AdvanceIter(dst == receiver) exposes a different value than a separate destination: %s", d)
				}
			}
			// the element iterator's scope is this one value (possibly followed by deleted
			// entries up to the very end of its tape): stepping on must report the end, not an error
			if et != simdjson.TypeObject && et != simdjson.TypeArray {
				var tmp simdjson.Iter
				if t2, err := after.AdvanceIter(&tmp); err != nil || t2 != simdjson.TypeNone {
					return nil, fmt.Errorf("AdvanceIter past the only (scalar) value of an element iterator gives (%v, %v)", t2, err)
				}
			}
		}
		return v, nil
	case simdjson.TypeNone, simdjson.TypeRoot:
		return nil, fmt.Errorf("unexpected type %v where a value was expected", t)
	}
	return scalar(it, t)
}

// ElemsValue extracts via Object.Parse -> Elements (objects) and AdvanceIter
// (arrays). Also checks Elements.Lookup against the element list.
func ElemsValue(it simdjson.Iter) (v *ref.Value, err error) {
	err = Guard(func() error {
		var e error
		pool := &elemPool{}
		v, e = elemsValue(&it, it.Type(), pool, 0)
		return e
	})
	return
}

// elemPool hands out one reusable Elements per nesting depth, so that
// Object.Parse is exercised with a destination that an earlier, different
// object already filled (siblings at the same depth share it).
type elemPool struct{ byDepth []*simdjson.Elements }

func (p *elemPool) get(depth int) *simdjson.Elements {
	for len(p.byDepth) <= depth {
		p.byDepth = append(p.byDepth, nil)
	}
	return p.byDepth[depth]
}

// Elems runs ElemsValue over every root.
func Elems(pj *simdjson.ParsedJson) (roots []*ref.Value, err error) {
	err = Guard(func() error {
		pool := &elemPool{}
		return pj.ForEach(func(i simdjson.Iter) error {
			v, err := elemsValue(&i, i.Type(), pool, 0)
			if err != nil {
				return err
			}
			roots = append(roots, v)
			return nil
		})
	})
	return
}

func elemsValue(it *simdjson.Iter, t simdjson.Type, pool *elemPool, depth int) (*ref.Value, error) {
	switch t {
	case simdjson.TypeObject:
		o, err := it.Object(nil)
		if err != nil {
			return nil, err
		}
		els, err := o.Parse(pool.get(depth))
		if err != nil {
			return nil, err
		}
		pool.byDepth[depth] = els
		v := &ref.Value{K: ref.Object}
		last := map[string]int{}
		for idx := range els.Elements {
			e := &els.Elements[idx]
			if e.Type != e.Iter.Type() {
				return nil, fmt.Errorf("Element.Type %v != Iter.Type %v", e.Type, e.Iter.Type())
			}
			c, err := elemsValue(&e.Iter, e.Type, pool, depth+1)
			if err != nil {
				return nil, err
			}
			v.Keys = append(v.Keys, []byte(e.Name))
			Hold("Element.Name (Object.Parse)", e.Name)
			v.Vals = append(v.Vals, c)
			last[e.Name] = idx
		}
		for name, idx := range last {
			le := els.Lookup(name)
			if le == nil || le != &els.Elements[idx] {
				return nil, fmt.Errorf("Elements.Lookup(%q) did not return the last member of that name", name)
			}
		}
		if len(els.Index) != len(last) {
			return nil, fmt.Errorf("Elements.Index has %d names, want %d", len(els.Index), len(last))
		}
		return v, nil
	case simdjson.TypeArray:
		a, err := it.Array(nil)
		if err != nil {
			return nil, err
		}
		v := &ref.Value{K: ref.Array}
		ai := a.Iter()
		var elem simdjson.Iter
		for {
			et, err := ai.AdvanceIter(&elem)
			if err != nil {
				return nil, err
			}
			if et == simdjson.TypeNone {
				break
			}
			c, e := elemsValue(&elem, et, pool, depth+1)
			if e != nil {
				return nil, e
			}
			v.A = append(v.A, c)
		}
		return v, nil
	case simdjson.TypeNone, simdjson.TypeRoot:
		return nil, fmt.Errorf("unexpected type %v where a value was expected", t)
	}
	return scalar(it, t)
}

// Iface extracts with Iter.Interface() from the top of the tape.
func Iface(pj *simdjson.ParsedJson) (x interface{}, err error) {
	err = Guard(func() error {
		it := pj.Iter()
		var e error
		x, e = it.Interface()
		return e
	})
	return
}

// CompareIface compares an Interface() result with the reference tree modulo
// map semantics (last duplicate wins, member order dropped, float flags
// dropped). Iterative. Returns "" when equal.
func CompareIface(v *ref.Value, x interface{}) string {
	type pair struct {
		v    *ref.Value
		x    interface{}
		path string
	}
	stack := []pair{{v, x, "$"}}
	for len(stack) > 0 {
		p := stack[len(stack)-1]
		stack = stack[:len(stack)-1]
		switch p.v.K {
		case ref.Null:
			if p.x != nil {
				return fmt.Sprintf("%s: want nil, got %T", p.path, p.x)
			}
		case ref.True, ref.False:
			b, ok := p.x.(bool)
			if !ok || b != (p.v.K == ref.True) {
				return fmt.Sprintf("%s: want bool %v, got %T %v", p.path, p.v.K == ref.True, p.x, p.x)
			}
		case ref.Int:
			i, ok := p.x.(int64)
			if !ok || i != p.v.I {
				return fmt.Sprintf("%s: want int64 %d, got %T %v", p.path, p.v.I, p.x, p.x)
			}
		case ref.Uint:
			u, ok := p.x.(uint64)
			if !ok || u != p.v.U {
				return fmt.Sprintf("%s: want uint64 %d, got %T %v", p.path, p.v.U, p.x, p.x)
			}
		case ref.Float:
			f, ok := p.x.(float64)
			if !ok || math.Float64bits(f) != math.Float64bits(p.v.F) {
				return fmt.Sprintf("%s: want float64 %v, got %T %v", p.path, p.v.F, p.x, p.x)
			}
		case ref.String:
			s, ok := p.x.(string)
			if !ok || s != string(p.v.S) {
				return fmt.Sprintf("%s: want string %q, got %T", p.path, clip(p.v.S), p.x)
			}
			Hold("Interface/Map (value)", s)
		case ref.Array:
			a, ok := p.x.([]interface{})
			if !ok || len(a) != len(p.v.A) {
				return fmt.Sprintf("%s: want array of %d, got %T len %d", p.path, len(p.v.A), p.x, len(a))
			}
			for i := range a {
				stack = append(stack, pair{p.v.A[i], a[i], fmt.Sprintf("%s[%d]", p.path, i)})
			}
		case ref.Object:
			m, ok := p.x.(map[string]interface{})
			if !ok {
				return fmt.Sprintf("%s: want object, got %T", p.path, p.x)
			}
			last := make(map[string]*ref.Value, len(p.v.Keys))
			for i, k := range p.v.Keys {
				last[string(k)] = p.v.Vals[i]
			}
			if len(m) != len(last) {
				return fmt.Sprintf("%s: want %d distinct keys, got %d", p.path, len(last), len(m))
			}
			for k := range m {
				Hold("Interface/Map (key)", k)
			}
			for k, rv := range last {
				xv, ok := m[k]
				if !ok {
					return fmt.Sprintf("%s: key %q missing", p.path, clip([]byte(k)))
				}
				stack = append(stack, pair{rv, xv, p.path + "." + k})
			}
		}
	}
	return ""
}

func clip(b []byte) string {
	if len(b) > 40 {
		return string(b[:40]) + "..."
	}
	return string(b)
}

// Recycled Object/Array destinations, one per nesting depth (0..63), shared by
// all Advance-route walks of this process; deeper levels get nil (fresh).
var rootDst simdjson.Iter

var (
	objPool      [64]*simdjson.Object
	arrPool      [64]*simdjson.Array
	advElemPool  [64]simdjson.Iter
	iterElemPool [64]simdjson.Iter
)

// SharedDst enables the recycled destinations. Only single-threaded drivers
// may switch it on (the pools are per process, not per goroutine).
var SharedDst bool

func dstObj(depth int) *simdjson.Object {
	if !SharedDst || depth >= len(objPool) {
		return nil
	}
	if objPool[depth] == nil {
		objPool[depth] = &simdjson.Object{}
		return nil // first use at this depth: library allocates; next time the recycled one is used
	}
	return objPool[depth]
}

func dstArr(depth int) *simdjson.Array {
	if !SharedDst || depth >= len(arrPool) {
		return nil
	}
	if arrPool[depth] == nil {
		arrPool[depth] = &simdjson.Array{}
		return nil
	}
	return arrPool[depth]
}

// shallowDiff compares what an iterator resting on a value of type t exposes with want, one level
// deep: a scalar in full, a container by its members' keys and kinds in order.
func shallowDiff(it *simdjson.Iter, t simdjson.Type, want *ref.Value) string {
	kindOf := func(v *ref.Value) simdjson.Type {
		switch v.K {
		case ref.Object:
			return simdjson.TypeObject
		case ref.Array:
			return simdjson.TypeArray
		case ref.String:
			return simdjson.TypeString
		case ref.Int:
			return simdjson.TypeInt
		case ref.Uint:
			return simdjson.TypeUint
		case ref.Float:
			return simdjson.TypeFloat
		case ref.Null:
			return simdjson.TypeNull
		}
		return simdjson.TypeBool
	}
	if kindOf(want) != t {
		return fmt.Sprintf("type %v, want %v", t, kindOf(want))
	}
	switch t {
	case simdjson.TypeObject:
		o, err := it.Object(nil)
		if err != nil {
			return err.Error()
		}
		var e simdjson.Iter
		for n := 0; ; n++ {
			name, et, err := o.NextElementBytes(&e)
			if err != nil {
				return err.Error()
			}
			if et == simdjson.TypeNone {
				if n != len(want.Keys) {
					return fmt.Sprintf("%d members, want %d", n, len(want.Keys))
				}
				return ""
			}
			if n >= len(want.Keys) {
				return fmt.Sprintf("more than %d members", len(want.Keys))
			}
			if string(name) != string(want.Keys[n]) || et != kindOf(want.Vals[n]) {
				return fmt.Sprintf("member %d is %q (%v), want %q (%v)", n, name, et, want.Keys[n], kindOf(want.Vals[n]))
			}
		}
	case simdjson.TypeArray:
		a, err := it.Array(nil)
		if err != nil {
			return err.Error()
		}
		ai := a.Iter()
		var e simdjson.Iter
		for n := 0; ; n++ {
			et, err := ai.AdvanceIter(&e)
			if err != nil {
				return err.Error()
			}
			if et == simdjson.TypeNone {
				if n != len(want.A) {
					return fmt.Sprintf("%d elements, want %d", n, len(want.A))
				}
				return ""
			}
			if n >= len(want.A) {
				return fmt.Sprintf("more than %d elements", len(want.A))
			}
			if et != kindOf(want.A[n]) {
				return fmt.Sprintf("element %d is %v, want %v", n, et, kindOf(want.A[n]))
			}
		}
	}
	got, err := scalar(it, t)
	if err != nil {
		return err.Error()
	}
	return ref.Diff(want, got)
}
