package walk

import (
	"fmt"
	"strings"
	"sync"
)

// Held-string monitor. A Go string handed out by the API (Iter.String, Interface/Map values
// and keys, NextElement, Element.Name) is a value: it must stay what it was, whatever happens
// to the ParsedJson it came from (reuse for another document, edits, input overwritten in
// copy mode). Walkers register a sample of such strings together with a private copy taken at
// the moment of the call; every registration re-examines the entry it replaces and
// HeldReport re-examines all of them.

type heldEntry struct {
	s, copy, api string
}

var (
	heldMu      sync.Mutex
	heldRing    [1024]heldEntry
	heldCalls   uint64
	heldChecked uint64
	heldBad     string
)

// Hold registers every 3rd non-empty string.
func Hold(api, s string) {
	if len(s) == 0 {
		return
	}
	heldMu.Lock()
	defer heldMu.Unlock()
	heldCalls++
	if heldCalls%3 != 0 {
		return
	}
	slot := &heldRing[(heldCalls/3)%uint64(len(heldRing))]
	heldCheck(slot)
	*slot = heldEntry{s: s, copy: strings.Clone(s), api: api}
}

func heldCheck(e *heldEntry) {
	if e.api == "" {
		return
	}
	heldChecked++
	if e.s != e.copy && heldBad == "" {
		heldBad = fmt.Sprintf("a string returned by %s read %.60q when it was returned and reads %.60q now", e.api, e.copy, e.s)
	}
}

// HeldReport re-examines all registered strings; bad is the first change seen so far.
func HeldReport() (bad string, checked uint64) {
	heldMu.Lock()
	defer heldMu.Unlock()
	for i := range heldRing {
		heldCheck(&heldRing[i])
	}
	return heldBad, heldChecked
}
