// Package ref is an independent reference model of RFC 8259 used as the oracle
// for the simdjson-go monitors. It shares no code with the library under test.
package ref

import (
	"bytes"
	"fmt"
	"math"
	"math/big"
	"strconv"
)

// Kind of a JSON value.
type Kind uint8

const (
	Null Kind = iota
	False
	True
	Int
	Uint
	Float
	String
	Array
	Object
)

func (k Kind) String() string {
	switch k {
	case Null:
		return "null"
	case False:
		return "false"
	case True:
		return "true"
	case Int:
		return "int"
	case Uint:
		return "uint"
	case Float:
		return "float"
	case String:
		return "string"
	case Array:
		return "array"
	case Object:
		return "object"
	}
	return "?"
}

// Value is the abstract value of a JSON text, with numbers typed by the
// documented simdjson-go rule.
type Value struct {
	K    Kind
	I    int64
	U    uint64
	F    float64
	Flag bool // overflowed-integer flag (floats only)
	S    []byte
	A    []*Value // array elements
	Keys [][]byte // object member names, source order, duplicates kept
	Vals []*Value
}

// Equal reports deep equality (floats by bit pattern). It is iterative.
func Equal(a, b *Value) bool {
	return Diff(a, b) == ""
}

// Diff returns "" if equal, else a short description of the first difference.
func Diff(a, b *Value) string { return diff(a, b, false) }

// DiffLoose is Diff with numbers compared by mathematical value only (type
// and overflow flag ignored): "numerically equal", as after a text round trip.
func DiffLoose(a, b *Value) string { return diff(a, b, true) }

func isNumKind(k Kind) bool { return k == Int || k == Uint || k == Float }

func numRat(v *Value) *big.Rat {
	switch v.K {
	case Int:
		return new(big.Rat).SetInt64(v.I)
	case Uint:
		return new(big.Rat).SetInt(new(big.Int).SetUint64(v.U))
	}
	r := new(big.Rat)
	if math.IsInf(v.F, 0) || math.IsNaN(v.F) {
		return nil
	}
	r.SetFloat64(v.F)
	return r
}

// diff first compares without keeping paths (the path of a value nested d levels deep is O(d)
// long, which made comparing a 10^4-deep document quadratic); only when the trees differ is
// the comparison repeated with paths, clipped to their last 200 bytes.
func diff(a, b *Value, loose bool) string {
	if diffCore(a, b, loose, false) == "" {
		return ""
	}
	return diffCore(a, b, loose, true)
}

func diffCore(a, b *Value, loose, track bool) string {
	child := func(p, seg string) string {
		if !track {
			return ""
		}
		s := p + seg
		if len(s) > 240 {
			s = "..." + s[len(s)-200:]
		}
		return s
	}
	type pair struct {
		a, b *Value
		path string
	}
	stack := []pair{{a, b, "$"}}
	for len(stack) > 0 {
		p := stack[len(stack)-1]
		stack = stack[:len(stack)-1]
		x, y := p.a, p.b
		if x == nil || y == nil {
			if x != y {
				return p.path + ": nil vs non-nil"
			}
			continue
		}
		if loose && isNumKind(x.K) && isNumKind(y.K) {
			// A float is denoted by any text that reads back as that float64;
			// so when either side is a float both are compared as float64.
			// Two integers compare exactly.
			if x.K == Float || y.K == Float {
				fx, fy := asFloat(x), asFloat(y)
				if fx != fy {
					return fmt.Sprintf("%s: number %v vs %v", p.path, numStr(x), numStr(y))
				}
				continue
			}
			rx, ry := numRat(x), numRat(y)
			if rx == nil || ry == nil || rx.Cmp(ry) != 0 {
				return fmt.Sprintf("%s: number %v vs %v", p.path, numStr(x), numStr(y))
			}
			continue
		}
		if x.K != y.K {
			return fmt.Sprintf("%s: kind %v vs %v", p.path, x.K, y.K)
		}
		switch x.K {
		case Int:
			if x.I != y.I {
				return fmt.Sprintf("%s: int %d vs %d", p.path, x.I, y.I)
			}
		case Uint:
			if x.U != y.U {
				return fmt.Sprintf("%s: uint %d vs %d", p.path, x.U, y.U)
			}
		case Float:
			if math.Float64bits(x.F) != math.Float64bits(y.F) {
				return fmt.Sprintf("%s: float %v (%#x) vs %v (%#x)", p.path, x.F, math.Float64bits(x.F), y.F, math.Float64bits(y.F))
			}
			if x.Flag != y.Flag {
				return fmt.Sprintf("%s: float flag %v vs %v", p.path, x.Flag, y.Flag)
			}
		case String:
			if !bytes.Equal(x.S, y.S) {
				return fmt.Sprintf("%s: string %s vs %s", p.path, clip(x.S), clip(y.S))
			}
		case Array:
			if len(x.A) != len(y.A) {
				return fmt.Sprintf("%s: array len %d vs %d", p.path, len(x.A), len(y.A))
			}
			for i := len(x.A) - 1; i >= 0; i-- {
				stack = append(stack, pair{x.A[i], y.A[i], child(p.path, "["+strconv.Itoa(i)+"]")})
			}
		case Object:
			if len(x.Keys) != len(y.Keys) {
				return fmt.Sprintf("%s: object len %d vs %d", p.path, len(x.Keys), len(y.Keys))
			}
			for i := range x.Keys {
				if !bytes.Equal(x.Keys[i], y.Keys[i]) {
					return fmt.Sprintf("%s: key #%d %s vs %s", p.path, i, clip(x.Keys[i]), clip(y.Keys[i]))
				}
			}
			for i := len(x.Vals) - 1; i >= 0; i-- {
				seg := ""
				if track {
					seg = "." + string(clipRaw(x.Keys[i]))
				}
				stack = append(stack, pair{x.Vals[i], y.Vals[i], child(p.path, seg)})
			}
		}
	}
	return ""
}

func asFloat(v *Value) float64 {
	switch v.K {
	case Int:
		return float64(v.I)
	case Uint:
		return float64(v.U)
	}
	return v.F
}

func numStr(v *Value) string {
	switch v.K {
	case Int:
		return fmt.Sprintf("int %d", v.I)
	case Uint:
		return fmt.Sprintf("uint %d", v.U)
	}
	return fmt.Sprintf("float %v", v.F)
}

func clipRaw(b []byte) []byte {
	if len(b) > 24 {
		return b[:24]
	}
	return b
}

func clip(b []byte) string {
	if len(b) > 48 {
		return fmt.Sprintf("%q...(%d)", b[:48], len(b))
	}
	return fmt.Sprintf("%q", b)
}

// EqualNumeric is Equal except that numbers compare by mathematical value
// when both are integers of different kinds (used where an API legitimately
// re-types, e.g. after a marshal round trip "1e2" stays float). Not used for
// the typed oracles.
func NumEqualLoose(a, b *Value) bool {
	if a.K == b.K {
		return Diff(a, b) == ""
	}
	return false
}

// Clone makes a deep copy (iterative for containers via recursion bounded by
// use on small/medium documents only).
func Clone(v *Value) *Value {
	if v == nil {
		return nil
	}
	type frame struct {
		src, dst *Value
	}
	root := &Value{}
	stack := []frame{{v, root}}
	for len(stack) > 0 {
		f := stack[len(stack)-1]
		stack = stack[:len(stack)-1]
		*f.dst = *f.src
		if f.src.S != nil {
			f.dst.S = append([]byte{}, f.src.S...)
		}
		if f.src.K == Array {
			f.dst.A = make([]*Value, len(f.src.A))
			for i, e := range f.src.A {
				f.dst.A[i] = &Value{}
				stack = append(stack, frame{e, f.dst.A[i]})
			}
		}
		if f.src.K == Object {
			f.dst.Keys = make([][]byte, len(f.src.Keys))
			f.dst.Vals = make([]*Value, len(f.src.Vals))
			for i := range f.src.Keys {
				f.dst.Keys[i] = append([]byte{}, f.src.Keys[i]...)
				f.dst.Vals[i] = &Value{}
				stack = append(stack, frame{f.src.Vals[i], f.dst.Vals[i]})
			}
		}
	}
	return root
}

// Count returns the number of values in the tree (containers included).
func Count(v *Value) int {
	n := 0
	stack := []*Value{v}
	for len(stack) > 0 {
		x := stack[len(stack)-1]
		stack = stack[:len(stack)-1]
		if x == nil {
			continue
		}
		n++
		stack = append(stack, x.A...)
		stack = append(stack, x.Vals...)
	}
	return n
}

// Depth returns the maximum nesting depth (scalars = 0, [] = 1).
func Depth(v *Value) int {
	type fr struct {
		v *Value
		d int
	}
	max := 0
	stack := []fr{{v, 0}}
	for len(stack) > 0 {
		x := stack[len(stack)-1]
		stack = stack[:len(stack)-1]
		if x.v == nil {
			continue
		}
		d := x.d
		if x.v.K == Array || x.v.K == Object {
			d++
		}
		if d > max {
			max = d
		}
		for _, e := range x.v.A {
			stack = append(stack, fr{e, d})
		}
		for _, e := range x.v.Vals {
			stack = append(stack, fr{e, d})
		}
	}
	return max
}

// Dump renders a canonical, typed, byte-exact text of the tree (used to
// compare documents across processes / builds). Iterative.
func Dump(v *Value) []byte {
	var b []byte
	type fr struct {
		v   *Value
		lit string
	}
	stack := []fr{{v: v}}
	for len(stack) > 0 {
		f := stack[len(stack)-1]
		stack = stack[:len(stack)-1]
		if f.v == nil {
			b = append(b, f.lit...)
			continue
		}
		x := f.v
		switch x.K {
		case Null:
			b = append(b, 'n', ';')
		case True:
			b = append(b, 't', ';')
		case False:
			b = append(b, 'f', ';')
		case Int:
			b = append(b, 'i')
			b = strconv.AppendInt(b, x.I, 10)
			b = append(b, ';')
		case Uint:
			b = append(b, 'u')
			b = strconv.AppendUint(b, x.U, 10)
			b = append(b, ';')
		case Float:
			b = append(b, 'd')
			b = strconv.AppendUint(b, math.Float64bits(x.F), 16)
			if x.Flag {
				b = append(b, '!')
			}
			b = append(b, ';')
		case String:
			b = append(b, 's')
			b = strconv.AppendInt(b, int64(len(x.S)), 10)
			b = append(b, ':')
			b = append(b, x.S...)
			b = append(b, ';')
		case Array:
			b = append(b, '[')
			stack = append(stack, fr{lit: "]"})
			for i := len(x.A) - 1; i >= 0; i-- {
				stack = append(stack, fr{v: x.A[i]})
			}
		case Object:
			b = append(b, '{')
			stack = append(stack, fr{lit: "}"})
			for i := len(x.Vals) - 1; i >= 0; i-- {
				stack = append(stack, fr{v: x.Vals[i]})
				stack = append(stack, fr{v: &Value{K: String, S: x.Keys[i]}})
			}
		}
	}
	return b
}
