package ref

import (
	"bytes"
	"errors"
	"fmt"
	"math"
	"math/big"
	"unicode/utf8"
)

// Info carries what the recogniser noticed besides validity.
type Info struct {
	BadUTF8      bool // bytes that are not valid UTF-8 inside some string
	BadSurrogate bool // ill-formed \u surrogate escape
	NonFinite    bool // a number literal whose value is not finite in float64
	Tokens       int  // number of tokens (structurals, scalars, strings)
	Values       int  // number of values
	Strings      int
	Numbers      int
	Escapes      int
	MaxDepth     int
}

// Class of an input with respect to property C01.
type Class uint8

const (
	MustReject Class = iota
	MustAccept
	Either
)

func (c Class) String() string {
	switch c {
	case MustReject:
		return "must-reject"
	case MustAccept:
		return "must-accept"
	}
	return "either"
}

func isJSONWS(c byte) bool { return c == ' ' || c == '\t' || c == '\n' || c == '\r' }

// TrimJSONWS strips the four JSON white-space characters at both ends.
func TrimJSONWS(b []byte) []byte {
	for len(b) > 0 && isJSONWS(b[0]) {
		b = b[1:]
	}
	for len(b) > 0 && isJSONWS(b[len(b)-1]) {
		b = b[:len(b)-1]
	}
	return b
}

// Classify decides what Parse must do with b (C01), returning the value for
// accepted and "either" inputs that have one.
func Classify(b []byte) (Class, *Value, Info) {
	t := TrimJSONWS(b)
	edge := !bytes.Equal(t, bytes.TrimSpace(b))
	if edge {
		// Non-JSON Unicode white space at the very edges: outside the claim.
		v, info, err := ParseText(bytes.TrimSpace(b))
		if err != nil {
			v = nil
		}
		return Either, v, info
	}
	v, info, err := ParseText(t)
	if err != nil {
		return MustReject, nil, info
	}
	if v.K != Array && v.K != Object {
		return MustReject, nil, info
	}
	if info.NonFinite {
		return MustReject, nil, info
	}
	if info.BadUTF8 || info.BadSurrogate {
		return Either, v, info
	}
	return MustAccept, v, info
}

type frame struct {
	v   *Value
	key []byte
}

// ParseText parses one JSON text (any root value) surrounded by optional JSON
// white space. Strings are lenient about bytes >= 0x80 and surrogate escapes;
// both are reported in Info. It is iterative.
func ParseText(b []byte) (*Value, Info, error) {
	var info Info
	i := 0
	n := len(b)
	skip := func() {
		for i < n && isJSONWS(b[i]) {
			i++
		}
	}
	var stack []frame
	var root *Value
	fail := func(msg string) (*Value, Info, error) {
		return nil, info, fmt.Errorf("%s at %d", msg, i)
	}

	const (
		sValue = iota
		sArrFirst
		sObjFirst
		sObjKey
		sAfter
	)
	state := sValue
	var cur *Value // just completed value
	for {
		skip()
		switch state {
		case sArrFirst:
			if i < n && b[i] == ']' {
				i++
				info.Tokens++
				cur = stack[len(stack)-1].v
				stack = stack[:len(stack)-1]
				state = sAfter
				continue
			}
			state = sValue
			continue
		case sObjFirst:
			if i < n && b[i] == '}' {
				i++
				info.Tokens++
				cur = stack[len(stack)-1].v
				stack = stack[:len(stack)-1]
				state = sAfter
				continue
			}
			state = sObjKey
			continue
		case sObjKey:
			if i >= n || b[i] != '"' {
				return fail("expected object key")
			}
			s, ni, err := scanString(b, i, &info)
			if err != nil {
				i = ni
				return fail(err.Error())
			}
			i = ni
			info.Tokens++
			skip()
			if i >= n || b[i] != ':' {
				return fail("expected ':'")
			}
			i++
			info.Tokens++
			stack[len(stack)-1].key = s
			state = sValue
			continue
		case sValue:
			if i >= n {
				return fail("unexpected end, expected value")
			}
			c := b[i]
			switch {
			case c == '{':
				i++
				info.Tokens++
				info.Values++
				v := &Value{K: Object}
				stack = append(stack, frame{v: v})
				if len(stack) > info.MaxDepth {
					info.MaxDepth = len(stack)
				}
				// attach later when complete
				state = sObjFirst
				continue
			case c == '[':
				i++
				info.Tokens++
				info.Values++
				v := &Value{K: Array}
				stack = append(stack, frame{v: v})
				if len(stack) > info.MaxDepth {
					info.MaxDepth = len(stack)
				}
				state = sArrFirst
				continue
			case c == '"':
				s, ni, err := scanString(b, i, &info)
				if err != nil {
					i = ni
					return fail(err.Error())
				}
				i = ni
				info.Tokens++
				info.Values++
				cur = &Value{K: String, S: s}
			case c == 't':
				if !bytes.HasPrefix(b[i:], []byte("true")) {
					return fail("bad literal")
				}
				i += 4
				info.Tokens++
				info.Values++
				cur = &Value{K: True}
			case c == 'f':
				if !bytes.HasPrefix(b[i:], []byte("false")) {
					return fail("bad literal")
				}
				i += 5
				info.Tokens++
				info.Values++
				cur = &Value{K: False}
			case c == 'n':
				if !bytes.HasPrefix(b[i:], []byte("null")) {
					return fail("bad literal")
				}
				i += 4
				info.Tokens++
				info.Values++
				cur = &Value{K: Null}
			case c == '-' || (c >= '0' && c <= '9'):
				ni, ok := ScanNumber(b, i)
				if !ok {
					return fail("bad number")
				}
				v, finite := NumberValue(b[i:ni])
				if !finite {
					info.NonFinite = true
				}
				i = ni
				info.Tokens++
				info.Values++
				info.Numbers++
				cur = &v
			default:
				return fail("unexpected character")
			}
			state = sAfter
			continue
		case sAfter:
			// cur is complete; attach to parent or finish.
			if len(stack) == 0 {
				root = cur
				skip()
				if i != n {
					return fail("trailing content")
				}
				return root, info, nil
			}
			top := &stack[len(stack)-1]
			if top.v.K == Array {
				top.v.A = append(top.v.A, cur)
				if i < n && b[i] == ',' {
					i++
					info.Tokens++
					state = sValue
					continue
				}
				if i < n && b[i] == ']' {
					i++
					info.Tokens++
					cur = top.v
					stack = stack[:len(stack)-1]
					state = sAfter
					continue
				}
				return fail("expected ',' or ']'")
			}
			top.v.Keys = append(top.v.Keys, top.key)
			top.v.Vals = append(top.v.Vals, cur)
			top.key = nil
			if i < n && b[i] == ',' {
				i++
				info.Tokens++
				state = sObjKey
				continue
			}
			if i < n && b[i] == '}' {
				i++
				info.Tokens++
				cur = top.v
				stack = stack[:len(stack)-1]
				state = sAfter
				continue
			}
			return fail("expected ',' or '}'")
		}
	}
}

// ScanNumber matches -?(0|[1-9][0-9]*)(\.[0-9]+)?([eE][+-]?[0-9]+)? at b[i:]
// and returns the end index. The caller checks what follows.
func ScanNumber(b []byte, i int) (int, bool) {
	n := len(b)
	if i < n && b[i] == '-' {
		i++
	}
	if i >= n {
		return i, false
	}
	if b[i] == '0' {
		i++
	} else if b[i] >= '1' && b[i] <= '9' {
		for i < n && b[i] >= '0' && b[i] <= '9' {
			i++
		}
	} else {
		return i, false
	}
	if i < n && b[i] == '.' {
		i++
		if i >= n || b[i] < '0' || b[i] > '9' {
			return i, false
		}
		for i < n && b[i] >= '0' && b[i] <= '9' {
			i++
		}
	}
	if i < n && (b[i] == 'e' || b[i] == 'E') {
		i++
		if i < n && (b[i] == '+' || b[i] == '-') {
			i++
		}
		if i >= n || b[i] < '0' || b[i] > '9' {
			return i, false
		}
		for i < n && b[i] >= '0' && b[i] <= '9' {
			i++
		}
	}
	return i, true
}

// IsNumber reports whether lit is exactly one JSON number literal.
func IsNumber(lit []byte) bool {
	e, ok := ScanNumber(lit, 0)
	return ok && e == len(lit)
}

var (
	bigTen      = big.NewInt(10)
	maxInt64Big = big.NewInt(math.MaxInt64)
	minInt64Big = big.NewInt(math.MinInt64)
	maxUintBig  = new(big.Int).SetUint64(math.MaxUint64)
)

// NumberValue computes type and exact value of a literal that matches the
// JSON number grammar, by the documented typing rule, without strconv.
// finite is false when the correctly rounded value is +-Inf.
func NumberValue(lit []byte) (v Value, finite bool) {
	neg := false
	s := lit
	if len(s) > 0 && s[0] == '-' {
		neg = true
		s = s[1:]
	}
	// split
	ip := s
	var fp, ep []byte
	pure := true
	if k := bytes.IndexAny(s, "eE"); k >= 0 {
		ep = s[k+1:]
		ip = s[:k]
		pure = false
	}
	if k := bytes.IndexByte(ip, '.'); k >= 0 {
		fp = ip[k+1:]
		ip = ip[:k]
		pure = false
	}
	if pure {
		// exact integer
		bi, _ := new(big.Int).SetString(string(ip), 10)
		if neg {
			bi.Neg(bi)
		}
		if bi.Cmp(minInt64Big) >= 0 && bi.Cmp(maxInt64Big) <= 0 {
			return Value{K: Int, I: bi.Int64()}, true
		}
		if !neg && bi.Cmp(maxUintBig) <= 0 {
			return Value{K: Uint, U: bi.Uint64()}, true
		}
		f, fin := roundDecimal(neg, ip, nil, 0)
		return Value{K: Float, F: f, Flag: true}, fin
	}
	// exponent with saturation
	exp := int64(0)
	if len(ep) > 0 {
		eneg := false
		e := ep
		if e[0] == '+' {
			e = e[1:]
		} else if e[0] == '-' {
			eneg = true
			e = e[1:]
		}
		for _, c := range e {
			if exp < 1e12 {
				exp = exp*10 + int64(c-'0')
			}
		}
		if eneg {
			exp = -exp
		}
	}
	f, fin := roundDecimal(neg, ip, fp, exp)
	return Value{K: Float, F: f}, fin
}

// roundDecimal returns the float64 nearest (ties to even) to
// (-1)^neg * ip.fp * 10^exp.
func roundDecimal(neg bool, ip, fp []byte, exp int64) (float64, bool) {
	digits := make([]byte, 0, len(ip)+len(fp))
	digits = append(digits, ip...)
	digits = append(digits, fp...)
	dexp := exp - int64(len(fp))
	// strip leading zeros
	for len(digits) > 0 && digits[0] == '0' {
		digits = digits[1:]
	}
	// strip trailing zeros into the exponent (keeps big numbers small)
	for len(digits) > 0 && digits[len(digits)-1] == '0' {
		digits = digits[:len(digits)-1]
		dexp++
	}
	sign := 1.0
	if neg {
		sign = math.Copysign(1, -1)
	}
	if len(digits) == 0 {
		return math.Copysign(0, sign), true
	}
	mag := int64(len(digits)) + dexp // value < 10^mag, >= 10^(mag-1)
	if mag > 310 {
		return math.Inf(int(sign)), false
	}
	if mag < -330 {
		return math.Copysign(0, sign), true
	}
	d, _ := new(big.Int).SetString(string(digits), 10)
	r := new(big.Rat)
	if dexp >= 0 {
		p := new(big.Int).Exp(bigTen, big.NewInt(dexp), nil)
		d.Mul(d, p)
		r.SetInt(d)
	} else {
		p := new(big.Int).Exp(bigTen, big.NewInt(-dexp), nil)
		r.SetFrac(d, p)
	}
	f, _ := r.Float64()
	if math.IsInf(f, 0) {
		return math.Inf(int(sign)), false
	}
	return math.Copysign(f, sign), true
}

var errStr = errors.New("bad string")

// scanString scans the string starting at the quote b[i] and returns the
// unescaped bytes and the index after the closing quote.
func scanString(b []byte, i int, info *Info) ([]byte, int, error) {
	n := len(b)
	start := i + 1
	j := start
	simple := true
	for {
		if j >= n {
			return nil, j, errors.New("unterminated string")
		}
		c := b[j]
		if c == '"' {
			break
		}
		if c < 0x20 {
			return nil, j, errors.New("control character in string")
		}
		if c == '\\' {
			simple = false
			if j+1 >= n {
				return nil, j, errors.New("truncated escape")
			}
			switch b[j+1] {
			case '"', '\\', '/', 'b', 'f', 'n', 'r', 't':
				j += 2
			case 'u':
				if j+6 > n {
					return nil, j, errors.New("truncated \\u escape")
				}
				for k := 2; k < 6; k++ {
					if hexVal(b[j+k]) < 0 {
						return nil, j + k, errors.New("bad hex digit")
					}
				}
				j += 6
			default:
				return nil, j + 1, errors.New("bad escape")
			}
			continue
		}
		j++
	}
	raw := b[start:j]
	info.Strings++
	if !utf8.Valid(raw) {
		info.BadUTF8 = true
	}
	if simple {
		return raw, j + 1, nil
	}
	out := make([]byte, 0, len(raw))
	for k := 0; k < len(raw); {
		c := raw[k]
		if c != '\\' {
			out = append(out, c)
			k++
			continue
		}
		info.Escapes++
		switch raw[k+1] {
		case '"':
			out = append(out, '"')
			k += 2
		case '\\':
			out = append(out, '\\')
			k += 2
		case '/':
			out = append(out, '/')
			k += 2
		case 'b':
			out = append(out, '\b')
			k += 2
		case 'f':
			out = append(out, '\f')
			k += 2
		case 'n':
			out = append(out, '\n')
			k += 2
		case 'r':
			out = append(out, '\r')
			k += 2
		case 't':
			out = append(out, '\t')
			k += 2
		case 'u':
			cp := hex4(raw[k+2:])
			k += 6
			switch {
			case cp >= 0xD800 && cp <= 0xDBFF:
				if k+6 <= len(raw) && raw[k] == '\\' && raw[k+1] == 'u' {
					lo := hex4(raw[k+2:])
					if lo >= 0xDC00 && lo <= 0xDFFF {
						r := 0x10000 + (cp-0xD800)<<10 + (lo - 0xDC00)
						out = appendUTF8(out, r)
						k += 6
						continue
					}
				}
				info.BadSurrogate = true
				out = appendUTF8(out, cp)
			case cp >= 0xDC00 && cp <= 0xDFFF:
				info.BadSurrogate = true
				out = appendUTF8(out, cp)
			default:
				out = appendUTF8(out, cp)
			}
		}
	}
	return out, j + 1, nil
}

func hexVal(c byte) int {
	switch {
	case c >= '0' && c <= '9':
		return int(c - '0')
	case c >= 'a' && c <= 'f':
		return int(c-'a') + 10
	case c >= 'A' && c <= 'F':
		return int(c-'A') + 10
	}
	return -1
}

func hex4(b []byte) int {
	return hexVal(b[0])<<12 | hexVal(b[1])<<8 | hexVal(b[2])<<4 | hexVal(b[3])
}

// appendUTF8 encodes r generically (surrogate code points included, as
// 3-byte sequences; those only arise in "either" cases).
func appendUTF8(out []byte, r int) []byte {
	switch {
	case r < 0x80:
		return append(out, byte(r))
	case r < 0x800:
		return append(out, 0xC0|byte(r>>6), 0x80|byte(r&0x3F))
	case r < 0x10000:
		return append(out, 0xE0|byte(r>>12), 0x80|byte((r>>6)&0x3F), 0x80|byte(r&0x3F))
	default:
		return append(out, 0xF0|byte(r>>18), 0x80|byte((r>>12)&0x3F), 0x80|byte((r>>6)&0x3F), 0x80|byte(r&0x3F))
	}
}

// SplitLines splits at LF and returns the lines that are not blank (only JSON
// white space), for the NDJSON oracles.
func SplitLines(b []byte) (nonblank [][]byte, total int) {
	for len(b) > 0 {
		k := bytes.IndexByte(b, '\n')
		var line []byte
		if k < 0 {
			line = b
			b = nil
		} else {
			line = b[:k]
			b = b[k+1:]
		}
		total++
		if len(TrimJSONWS(line)) > 0 {
			nonblank = append(nonblank, line)
		}
	}
	return
}

// Analysis is Classify plus the facts the oracle self-check needs.
type Analysis struct {
	Class     Class
	Value     *Value
	Info      Info
	Edge      bool // non-JSON Unicode white space at the edges
	LenientOK bool // the text (JSON-trimmed) is valid with any root and any magnitude
}

// Analyze classifies b for C01.
func Analyze(b []byte) Analysis {
	t := TrimJSONWS(b)
	a := Analysis{}
	a.Edge = !bytes.Equal(t, bytes.TrimSpace(b))
	if a.Edge {
		v, info, err := ParseText(bytes.TrimSpace(b))
		a.Class, a.Info = Either, info
		if err == nil {
			a.Value = v
		}
		return a
	}
	v, info, err := ParseText(t)
	a.Info = info
	if err != nil {
		a.Class = MustReject
		return a
	}
	a.LenientOK = true
	switch {
	case v.K != Array && v.K != Object, info.NonFinite:
		a.Class = MustReject
	case info.BadUTF8 || info.BadSurrogate:
		a.Class, a.Value = Either, v
	default:
		a.Class, a.Value = MustAccept, v
	}
	return a
}
