package gen

// Mutate applies one random byte/token level mutation to a copy of doc.
func Mutate(r *Rand, doc []byte) []byte {
	if len(doc) == 0 {
		return []byte{byte(r.Intn(256))}
	}
	out := append([]byte{}, doc...)
	p := r.Intn(len(out))
	switch r.Intn(9) {
	case 0: // substitute with interesting byte
		out[p] = interesting[r.Intn(len(interesting))]
	case 1: // substitute random
		out[p] = byte(r.Intn(256))
	case 2: // delete one byte
		out = append(out[:p], out[p+1:]...)
	case 3: // insert interesting
		out = append(out[:p], append([]byte{interesting[r.Intn(len(interesting))]}, out[p:]...)...)
	case 4: // duplicate a span
		n := r.Range(1, 8)
		if p+n > len(out) {
			n = len(out) - p
		}
		span := append([]byte{}, out[p:p+n]...)
		out = append(out[:p], append(span, out[p:]...)...)
	case 5: // delete a span
		n := r.Range(1, 16)
		if p+n > len(out) {
			n = len(out) - p
		}
		out = append(out[:p], out[p+n:]...)
	case 6: // truncate
		out = out[:p]
	case 7: // swap two bytes
		q := r.Intn(len(out))
		out[p], out[q] = out[q], out[p]
	case 8: // flip a bit
		out[p] ^= 1 << uint(r.Intn(8))
	}
	return out
}

var interesting = []byte{'{', '}', '[', ']', ',', ':', '"', '\\', ' ', '\n', '\t', '\r', 0, 0x1f, 0x7f, 0x80, 0xff,
	'0', '1', '9', '-', '+', '.', 'e', 'E', 't', 'f', 'n', 'u', 'x', '/', 'a'}

// RandomBytes returns n bytes from one of several alphabets.
func RandomBytes(r *Rand, n int, alphabet int) []byte {
	b := make([]byte, n)
	switch alphabet {
	case 0:
		copy(b, r.Bytes(n))
	case 1: // JSON heavy
		const a = "{}[],:\"\\ \n0123456789-+.eEtruefalsnl\tab\x00\x1f\x80"
		for i := range b {
			b[i] = a[r.Intn(len(a))]
		}
	default: // structural only
		const a = "{}[],:\"\n "
		for i := range b {
			b[i] = a[r.Intn(len(a))]
		}
	}
	return b
}
