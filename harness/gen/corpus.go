package gen

import (
	"archive/tar"
	"bytes"
	"io"
	"os"
	"path/filepath"
	"sort"
	"strings"

	"github.com/klauspost/compress/zstd"
)

// NamedDoc is one corpus document.
type NamedDoc struct {
	Name string
	Data []byte
}

// RepoDir is where the library under test lives.
var RepoDir = "/repo"

// Corpus loads testdata/*.json.zst (maxSize caps the document size; 0 = all).
func Corpus(maxSize int) []NamedDoc {
	var out []NamedDoc
	files, _ := filepath.Glob(filepath.Join(RepoDir, "testdata", "*.json.zst"))
	sort.Strings(files)
	dec, err := zstd.NewReader(nil)
	if err != nil {
		return nil
	}
	defer dec.Close()
	for _, f := range files {
		raw, err := os.ReadFile(f)
		if err != nil {
			continue
		}
		data, err := dec.DecodeAll(raw, nil)
		if err != nil {
			continue
		}
		if maxSize > 0 && len(data) > maxSize {
			continue
		}
		out = append(out, NamedDoc{Name: strings.TrimSuffix(filepath.Base(f), ".json.zst"), Data: data})
	}
	return out
}

// FuzzCorpus loads up to max entries of a testdata/fuzz/*.tar.zst archive.
func FuzzCorpus(name string, max int, maxSize int) []NamedDoc {
	raw, err := os.ReadFile(filepath.Join(RepoDir, "testdata", "fuzz", name))
	if err != nil {
		return nil
	}
	dec, err := zstd.NewReader(bytes.NewReader(raw))
	if err != nil {
		return nil
	}
	defer dec.Close()
	tr := tar.NewReader(dec)
	var out []NamedDoc
	for len(out) < max {
		h, err := tr.Next()
		if err != nil {
			break
		}
		if h.Typeflag != tar.TypeReg {
			continue
		}
		data, err := io.ReadAll(tr)
		if err != nil {
			break
		}
		if maxSize > 0 && len(data) > maxSize {
			continue
		}
		// go-fuzz v2 corpus files carry a header line; keep raw bytes too.
		out = append(out, NamedDoc{Name: h.Name, Data: data})
	}
	return out
}
