package gen

import (
	"bytes"
	"math"
	"strconv"
)

// DocCfg controls the structured document generator.
type DocCfg struct {
	Size     int  // approximate target size in bytes
	MaxDepth int  // maximum nesting below the root container
	MaxFan   int  // maximum members per container
	WS       int  // 0 none, 1 some, 2 heavy (kilobytes possible)
	Esc      int  // percentage of strings that get escapes / multibyte
	LongStr  int  // percentage of strings that are long (crossing blocks)
	DupKeys  bool // allow duplicate, empty and equal-length keys
	NoFloat  bool
	OnlyObj  bool // root is an object
	OnlyArr  bool // root is an array
	Unique   bool // keys unique within each object
	NoLF     bool // never emit LF/CR as white space (NDJSON lines)
}

type docGen struct {
	r      *Rand
	c      DocCfg
	b      bytes.Buffer
	budget int
}

// Doc produces one valid JSON document (object or array root).
func Doc(r *Rand, c DocCfg) []byte {
	if c.MaxFan <= 0 {
		c.MaxFan = 8
	}
	if c.MaxDepth <= 0 {
		c.MaxDepth = 6
	}
	g := &docGen{r: r, c: c, budget: c.Size}
	g.ws()
	if c.Size < 4096 && r.Chance(1, 64) {
		// the two shortest documents there are (with or without white space inside)
		g.b.WriteByte("{["[b2i(c.OnlyArr || !c.OnlyObj && r.Bool())])
		g.ws()
		g.b.WriteByte("}]"[b2i(g.b.Bytes()[bytes.IndexAny(g.b.Bytes(), "{[")] == '[')])
		g.ws()
		return g.b.Bytes()
	}
	obj := r.Bool()
	if c.OnlyObj {
		obj = true
	}
	if c.OnlyArr {
		obj = false
	}
	g.container(obj, 0, true)
	g.ws()
	return g.b.Bytes()
}

func (g *docGen) ws() {
	switch g.c.WS {
	case 0:
		return
	case 1:
		if g.r.Chance(1, 3) {
			n := g.r.Intn(4)
			for i := 0; i < n; i++ {
				g.b.WriteByte(g.wsByte())
			}
		}
	case 2:
		if g.r.Chance(1, 2) {
			n := g.r.Intn(8)
			if g.r.Chance(1, 40) {
				n = g.r.Range(60, 200)
			}
			if g.r.Chance(1, 400) {
				n = g.r.Range(1000, 3000)
			}
			for i := 0; i < n; i++ {
				g.b.WriteByte(g.wsByte())
			}
		}
	}
}

func (g *docGen) wsByte() byte {
	if g.c.NoLF {
		return " \t"[g.r.Intn(2)]
	}
	return " \t\n\r"[g.r.Intn(4)]
}

func (g *docGen) container(obj bool, depth int, root bool) {
	n := g.r.Intn(g.c.MaxFan + 1)
	if root {
		// the root absorbs the size budget
		n = g.r.Range(1, g.c.MaxFan)
	}
	if obj {
		g.b.WriteByte('{')
	} else {
		g.b.WriteByte('[')
	}
	g.ws()
	used := map[string]bool{}
	var prevKey []byte
	for i := 0; (i < n || (root && g.b.Len() < g.budget)) && i < 1<<22; i++ {
		if i > 0 {
			g.b.WriteByte(',')
			g.ws()
		}
		if obj {
			var k []byte
			for try := 0; ; try++ {
				k = g.key(prevKey)
				if !g.c.Unique || !used[string(k)] {
					break
				}
				if try > 4 {
					k = []byte(`"k` + strconv.Itoa(i) + `_` + strconv.Itoa(g.r.Intn(1<<30)) + `"`)
					if !used[string(k)] {
						break
					}
				}
			}
			used[string(k)] = true
			prevKey = k
			g.b.Write(k)
			g.ws()
			g.b.WriteByte(':')
			g.ws()
		}
		g.value(depth)
		g.ws()
		if !root && g.b.Len() > g.budget {
			break
		}
	}
	if obj {
		g.b.WriteByte('}')
	} else {
		g.b.WriteByte(']')
	}
}

func (g *docGen) key(prev []byte) []byte {
	if g.c.DupKeys && !g.c.Unique && prev != nil && g.r.Chance(1, 6) {
		return prev // duplicate
	}
	if g.c.DupKeys && g.r.Chance(1, 12) {
		return []byte(`""`)
	}
	if g.c.DupKeys && prev != nil && bytes.IndexByte(prev, '\\') < 0 && g.r.Chance(1, 5) {
		// same length, different content
		k := append([]byte{}, prev...)
		if len(k) > 2 {
			p := 1 + g.r.Intn(len(k)-2)
			if k[p] >= 'a' && k[p] <= 'y' {
				k[p]++
				return k
			}
		}
	}
	if g.r.Intn(100) < g.c.Esc {
		return StringLit(g.r, g.r.Range(0, 20), true)
	}
	return StringLit(g.r, g.r.Range(1, 12), false)
}

func (g *docGen) value(depth int) {
	k := g.r.Intn(100)
	if depth >= g.c.MaxDepth && k < 30 {
		k = 30 + g.r.Intn(70)
	}
	switch {
	case k < 15:
		g.container(true, depth+1, false)
	case k < 30:
		g.container(false, depth+1, false)
	case k < 55:
		n := g.r.Range(0, 24)
		if g.r.Intn(100) < g.c.LongStr {
			n = g.r.Range(30, 400)
			if g.r.Chance(1, 10) {
				n = g.r.Range(400, 5000)
			}
		}
		g.b.Write(StringLit(g.r, n, g.r.Intn(100) < g.c.Esc))
	case k < 85:
		g.b.Write(NumberLit(g.r, g.c.NoFloat))
	case k < 90:
		g.b.WriteString("true")
	case k < 95:
		g.b.WriteString("false")
	default:
		g.b.WriteString("null")
	}
}

var simpleEsc = []string{`\"`, `\\`, `\/`, `\b`, `\f`, `\n`, `\r`, `\t`}

// StringLit returns a valid JSON string literal (with quotes) of roughly n
// content units. With esc, escapes and multi-byte UTF-8 are mixed in.
func StringLit(r *Rand, n int, esc bool) []byte {
	b := make([]byte, 0, n+2)
	b = append(b, '"')
	for i := 0; i < n; i++ {
		if !esc {
			b = append(b, plainByte(r))
			continue
		}
		switch r.Intn(12) {
		case 0:
			b = append(b, simpleEsc[r.Intn(len(simpleEsc))]...)
		case 1:
			b = appendU(b, r, uint16(randBMP(r)))
		case 2:
			cp := 0x10000 + r.Intn(0x100000)
			hi := 0xD800 + ((cp - 0x10000) >> 10)
			lo := 0xDC00 + ((cp - 0x10000) & 0x3FF)
			b = appendU(b, r, uint16(hi))
			b = appendU(b, r, uint16(lo))
		case 3:
			b = appendRune(b, rune(0x80+r.Intn(0x780)))
		case 4:
			b = appendRune(b, rune(randBMP(r)))
		case 5:
			b = appendRune(b, rune(0x10000+r.Intn(0x100000)))
		default:
			b = append(b, plainByte(r))
		}
	}
	b = append(b, '"')
	return b
}

func randBMP(r *Rand) int {
	for {
		c := r.Intn(0x10000)
		if c < 0xD800 || c > 0xDFFF {
			return c
		}
	}
}

func plainByte(r *Rand) byte {
	for {
		c := byte(0x20 + r.Intn(0x5f))
		if c != '"' && c != '\\' {
			return c
		}
	}
}

func appendRune(b []byte, c rune) []byte {
	if c >= 0xD800 && c <= 0xDFFF {
		c = 0xFFFD
	}
	if c < 0x20 || c == '"' || c == '\\' {
		c = 'x'
	}
	return append(b, string(c)...)
}

func appendU(b []byte, r *Rand, v uint16) []byte {
	const lo = "0123456789abcdef"
	const up = "0123456789ABCDEF"
	b = append(b, '\\', 'u')
	for s := 12; s >= 0; s -= 4 {
		d := (v >> uint(s)) & 0xf
		if r.Bool() {
			b = append(b, lo[d])
		} else {
			b = append(b, up[d])
		}
	}
	return b
}

var boundaryInts = []string{
	"0", "-0", "1", "-1", "9", "10", "127", "255", "256", "65535", "65536",
	"2147483647", "2147483648", "-2147483648", "4294967295", "4294967296",
	"9007199254740991", "9007199254740992", "9007199254740993",
	"9223372036854775806", "9223372036854775807", "9223372036854775808", "9223372036854775809",
	"-9223372036854775807", "-9223372036854775808", "-9223372036854775809",
	"18446744073709551614", "18446744073709551615", "18446744073709551616", "18446744073709551617",
	"99999999999999999999", "100000000000000000000", "-99999999999999999999",
	"123456789012345678901234567890",
}

// NumberLit returns a valid JSON number literal with finite value.
func NumberLit(r *Rand, noFloat bool) []byte {
	k := r.Intn(10)
	if noFloat && k >= 5 {
		k = r.Intn(5)
	}
	switch k {
	case 0, 1:
		return strconv.AppendInt(nil, int64(r.Intn(2000))-1000, 10)
	case 2:
		return []byte(boundaryInts[r.Intn(len(boundaryInts))])
	case 3:
		return strconv.AppendInt(nil, int64(r.Uint64()), 10)
	case 4:
		return strconv.AppendUint(nil, r.Uint64(), 10)
	case 5:
		f := randFinite(r)
		return strconv.AppendFloat(nil, f, 'g', 17, 64)
	case 6:
		f := randFinite(r)
		b := strconv.AppendFloat(nil, f, 'e', -1, 64)
		if r.Bool() {
			b = bytes.ToUpper(b)
		}
		return b
	case 7:
		return strconv.AppendFloat(nil, float64(int64(r.Intn(2000000))-1000000)/1000, 'f', -1, 64)
	case 8:
		// integer digits with exponent / fraction spellings
		b := strconv.AppendInt(nil, int64(r.Intn(100000)), 10)
		switch r.Intn(5) {
		case 0:
			b = append(b, ".0"...)
		case 1:
			b = append(b, "e0"...)
		case 2:
			b = append(b, "E+0"...)
		case 3:
			b = append(b, "e-0"...)
		case 4:
			b = append(b, "e+007"...)
		}
		return b
	default:
		f := randFinite(r)
		return strconv.AppendFloat(nil, f, 'g', -1, 64)
	}
}

func randFinite(r *Rand) float64 {
	for {
		f := math.Float64frombits(r.Uint64())
		if !math.IsInf(f, 0) && !math.IsNaN(f) {
			return f
		}
	}
}

// Nest returns depth nested containers: kind 0 arrays, 1 objects, 2 alternating,
// with the given innermost text.
func Nest(depth int, kind int, inner string) []byte {
	var b bytes.Buffer
	b.Grow(depth*8 + len(inner))
	closers := make([]byte, 0, depth)
	for i := 0; i < depth; i++ {
		obj := kind == 1 || (kind == 2 && i%2 == 1)
		if obj {
			b.WriteString(`{"a":`)
			closers = append(closers, '}')
		} else {
			b.WriteByte('[')
			closers = append(closers, ']')
		}
	}
	b.WriteString(inner)
	for i := len(closers) - 1; i >= 0; i-- {
		b.WriteByte(closers[i])
	}
	return b.Bytes()
}

// Aperiodic returns a valid array document of about size bytes whose element
// widths vary by a seeded sequence, so no two index buffers are equal.
// density: 0 = numbers (about one structural per 2-9 bytes), 1 = long strings
// (few structurals), 2 = maximal density ("[[],[],...").
func Aperiodic(r *Rand, size int, density int) []byte {
	var b bytes.Buffer
	b.Grow(size + 64)
	b.WriteByte('[')
	first := true
	for b.Len() < size {
		if !first {
			b.WriteByte(',')
		}
		first = false
		switch density {
		case 0:
			w := r.Range(1, 8)
			v := r.Uint64()
			s := strconv.FormatUint(v, 10)
			if len(s) > w {
				s = s[:w]
			}
			if s[0] == '0' && len(s) > 1 {
				s = "1" + s[1:]
			}
			b.WriteString(s)
		case 1:
			b.Write(StringLit(r, r.Range(20, 900), r.Chance(1, 4)))
		default:
			switch r.Intn(4) {
			case 0:
				b.WriteString("[]")
			case 1:
				b.WriteString("{}")
			case 2:
				b.WriteString("[[]]")
			default:
				b.WriteString(strconv.Itoa(r.Intn(10)))
			}
		}
	}
	b.WriteByte(']')
	return b.Bytes()
}

func b2i(b bool) int {
	if b {
		return 1
	}
	return 0
}
