// Package gen holds the seeded generators, enumerators and mutators.
package gen

import (
	"fmt"
	"hash/fnv"
)

// Rand is a small deterministic PRNG (splitmix64).
type Rand struct{ s uint64 }

// New derives a stream from a seed and any number of keys.
func New(seed uint64, keys ...interface{}) *Rand {
	h := fnv.New64a()
	fmt.Fprintf(h, "%d", seed)
	for _, k := range keys {
		fmt.Fprintf(h, "|%v", k)
	}
	r := &Rand{s: h.Sum64()}
	r.Uint64()
	return r
}

// Split derives an independent child stream.
func (r *Rand) Split() *Rand { return &Rand{s: r.Uint64() ^ 0x9e3779b97f4a7c15} }

func (r *Rand) Uint64() uint64 {
	r.s += 0x9e3779b97f4a7c15
	z := r.s
	z = (z ^ (z >> 30)) * 0xbf58476d1ce4e5b9
	z = (z ^ (z >> 27)) * 0x94d049bb133111eb
	return z ^ (z >> 31)
}

func (r *Rand) Intn(n int) int {
	if n <= 0 {
		return 0
	}
	return int(r.Uint64() % uint64(n))
}

// Range returns a value in [lo, hi].
func (r *Rand) Range(lo, hi int) int {
	if hi <= lo {
		return lo
	}
	return lo + r.Intn(hi-lo+1)
}

func (r *Rand) Bool() bool { return r.Uint64()&1 == 1 }

// Chance is true with probability num/den.
func (r *Rand) Chance(num, den int) bool { return r.Intn(den) < num }

func (r *Rand) Float64() float64 { return float64(r.Uint64()>>11) / (1 << 53) }

func (r *Rand) Bytes(n int) []byte {
	b := make([]byte, n)
	for i := 0; i < n; i += 8 {
		v := r.Uint64()
		for j := 0; j < 8 && i+j < n; j++ {
			b[i+j] = byte(v >> (8 * j))
		}
	}
	return b
}

// Hash64 is the content hash used to count distinct cases.
func Hash64(parts ...[]byte) uint64 {
	h := uint64(14695981039346656037)
	for _, p := range parts {
		for _, c := range p {
			h ^= uint64(c)
			h *= 1099511628211
		}
		h ^= 0xff
		h *= 1099511628211
	}
	return h
}
