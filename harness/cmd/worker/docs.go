package main

import (
	"bytes"
	"fmt"
	"strings"

	"verifharness/gen"
)

// probe holds every token kind; sliding it across an index-buffer boundary
// puts each kind on the first/last slot of a buffer.
const probe = `{"key":"value","k2":[true,false,null,-1.5e3,{"x":{}},[],"s"],"k3":"esc\né","":0,"n":12345678901234567890}`

// eachValidDoc generates valid documents of every shape the properties name.
// scale: 1 quick, 10 thorough. fn must not retain doc.
func (w *W) eachValidDoc(scale int, fn inputFn) {
	i := 0
	r := w.rng("validdocs")
	// 1. structured random documents
	sizes := []int{2, 10, 40, 120, 500, 2000, 7000, 8100, 8300, 20000, 70000}
	n := 1000 * scale
	for k := 0; k < n; k++ {
		rr := r.Split()
		if !w.mine(i) {
			i++
			continue
		}
		i++
		cfg := gen.DocCfg{
			Size:     sizes[k%len(sizes)],
			MaxDepth: 1 + k%9,
			MaxFan:   1 + (k/3)%12,
			WS:       (k / 7) % 3,
			Esc:      []int{0, 20, 60}[(k/5)%3],
			LongStr:  []int{0, 10, 40}[(k/11)%3],
			DupKeys:  k%2 == 0,
		}
		fn("doc", gen.Doc(rr, cfg))
	}
	// occasional big ones
	big := []int{300 << 10, 1 << 20}
	if scale > 4 {
		big = append(big, 4<<20, 8<<20)
	}
	for k, sz := range big {
		rr := r.Split()
		if !w.mine(i) {
			i++
			continue
		}
		i++
		fn("doc-big", gen.Doc(rr, gen.DocCfg{Size: sz, MaxDepth: 6, MaxFan: 20, WS: k % 3, Esc: 20, LongStr: 10, DupKeys: true}))
	}
	// strings around the 64 KiB sizes the serializer's buffers and tables use, plain and with an escape,
	// as value and as key, next to short strings and repeated (the second occurrence is a table hit)
	for _, n := range []int{65535, 65536, 65537, 70000, 131071, 131073} {
		for v := 0; v < 2; v++ {
			if !w.mine(i) {
				i++
				continue
			}
			i++
			long := strings.Repeat("s", n-2) + []string{"zz", `\n`}[v]
			fn("string-64k", []byte(`["a","`+long+`",{"`+long+`":"b"},"`+long+`","c"]`))
		}
	}
	// 2. boundary families: probe start at structural ordinal n
	for _, base := range []int{1408, 2816, 4224} {
		for n := base - 48; n <= base+3; n++ {
			if !w.mine(i) {
				i++
				continue
			}
			i++
			var b bytes.Buffer
			b.WriteByte('[')
			k := n - 1
			if k%2 == 1 {
				b.WriteString("[],")
				k -= 3
			}
			for j := 0; j < k/2; j++ {
				b.WriteString("0,")
			}
			b.WriteString(probe)
			b.WriteString(",1]")
			fn(fmt.Sprintf("boundary-ordinal-%d", base), b.Bytes())
			// same with the probe's strings made long so that quotes straddle
			// the buffer end with stage 2 peeking at the next index
			b.Reset()
			b.WriteByte('[')
			for j := 0; j < k/2; j++ {
				b.WriteString("0,")
			}
			b.WriteString(`"` + strings.Repeat("q", n%97) + `","` + strings.Repeat("r", 70) + `",{"` + strings.Repeat("k", n%61) + `":"v"}`)
			b.WriteString("]")
			fn(fmt.Sprintf("boundary-strings-%d", base), b.Bytes())
		}
	}
	// 3. number of index buffers
	for _, nb := range []int{1, 2, 15, 16, 17, 33, 100} {
		for dens := 0; dens < 3; dens++ {
			rr := r.Split()
			if !w.mine(i) {
				i++
				continue
			}
			i++
			size := nb * 1408
			switch dens {
			case 0:
				size *= 5
			case 1:
				size *= 230
			default:
				size = size * 3 / 2
			}
			if size > 12<<20 {
				size = 12 << 20
			}
			fn(fmt.Sprintf("buffers-%d-d%d", nb, dens), gen.Aperiodic(rr, size, dens))
		}
	}
	// 4. nesting depth
	depths := []int{1, 2, 127, 128, 129, 1000, 10000}
	if scale > 4 {
		depths = append(depths, 100000)
	}
	for _, d := range depths {
		for kind := 0; kind < 3; kind++ {
			for _, inner := range []string{"", "1", `"x"`, `{"a":[1,2]}`} {
				if inner == "" && kind == 1 {
					inner = "{}"
				}
				if !w.mine(i) {
					i++
					continue
				}
				i++
				doc := gen.Nest(d, kind, inner)
				if len(doc) > 0 && (doc[0] == '[' || doc[0] == '{') {
					fn(fmt.Sprintf("nest-%d-k%d", d, kind), doc)
				}
			}
		}
	}
	// 5. white-space heavy and 6. long strings
	for k := 0; k < 10*scale; k++ {
		rr := r.Split()
		if !w.mine(i) {
			i++
			continue
		}
		i++
		fn("doc-ws", gen.Doc(rr, gen.DocCfg{Size: 3000 + 500*k, MaxDepth: 4, MaxFan: 6, WS: 2, Esc: 30, LongStr: 50, DupKeys: true}))
	}
	// 7. sizes straddling the sync/async threshold
	for d := -70; d <= 70; d++ {
		if !w.mine(i) {
			i++
			continue
		}
		i++
		target := 8192 + d
		body := `{"a":[1,2,{"b":"c"}],"pad":"`
		tail := `","z":[true,null]}`
		fn("threshold-8k", []byte(body+strings.Repeat("x", target-len(body)-len(tail))+tail))
	}
	// 9. long stretches without any structural character (a string, white space), alone and
	// behind enough dense elements that an index is being carried between buffers
	for _, L := range []int{16383, 16384, 32768, 65535, 65536, 65537, 131071, 131072, 131073, 200000, 1 << 20} {
		for v := 0; v < 4; v++ {
			if !w.mine(i) {
				i++
				continue
			}
			i++
			var doc string
			switch v {
			case 0:
				doc = `["` + strings.Repeat("x", L) + `",1]`
			case 1:
				doc = `[1,` + strings.Repeat(" ", L) + `2]`
			case 2:
				doc = `[` + strings.Repeat("0,", 701+L%5) + `"` + strings.Repeat("y", L) + `"]`
			default:
				doc = `{"k":[` + strings.Repeat(" \n\t\r", L/4) + `null]}`
			}
			fn(fmt.Sprintf("no-structurals-%d", L), []byte(doc))
		}
	}
	// 8. corpus
	maxCorpus := 1 << 20
	if scale > 4 {
		maxCorpus = 8 << 20
	}
	for _, d := range gen.Corpus(maxCorpus) {
		if !w.mine(i) {
			i++
			continue
		}
		i++
		fn("corpus:"+d.Name, d.Data)
	}
}
