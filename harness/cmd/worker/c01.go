package main

import (
	"encoding/json"
	"fmt"

	simdjson "github.com/minio/simdjson-go"

	"verifharness/ev"
	"verifharness/gen"
	"verifharness/ref"
	"verifharness/walk"
)

func init() { register("C01", runC01, replayC01) }

type c01State struct {
	ndReuse   *simdjson.ParsedJson
	n         int
	minimized int
}

// c01Judge judges one input under every kernel x string-mode configuration.
func (w *W) c01Judge(st *c01State, g string, in []byte) {
	cs := &ev.Case{Gen: g, Input: in}
	w.Journal(cs)
	if w.Skip() {
		return
	}
	a := ref.Analyze(in)
	st.n++
	// oracle self-check: the lenient recogniser must agree with encoding/json
	if !a.Edge && a.Info.MaxDepth < 9000 {
		// (encoding/json refuses nesting deeper than 10000; RFC 8259 has no such limit)
		if jv := json.Valid(in); jv != a.LenientOK {
			w.OracleDisagreement("C01/recogniser-vs-encoding/json/"+q(in), fmt.Sprintf("reference says valid=%v, encoding/json.Valid says %v", a.LenientOK, jv), cs)
			return
		}
	}
	w.Count("class_"+a.Class.String(), 1)
	if a.Class == ref.Either {
		w.Count("either_not_judged", 1)
	} else if len(ref.TrimJSONWS(in)) >= 2 {
		w.Nontrivial(gen.Hash64(in))
	}
	if len(in) > 8192 {
		w.Count("inputs_async_path", 1)
	}
	for ci, cfg := range w.configs() {
		fresh := (st.n+ci)%64 == 0
		pj, err, pan := w.parseGuarded(in, cfg, false, fresh)
		w.Eval(1)
		if pan != nil {
			w.Violation("C01/panic/"+g, fmt.Sprintf("Parse panicked (%s) on %s: %v", cfg, q(in), pan), cs)
			continue
		}
		if (err == nil) == (pj == nil) {
			w.Violation("C01/error-and-result/"+q(in), fmt.Sprintf("Parse (%s) returned err=%v result-nil=%v", cfg, err, pj == nil), cs)
			continue
		}
		if a.Class == ref.Either {
			continue
		}
		accepted := err == nil
		if accepted == (a.Class == ref.MustAccept) {
			continue
		}
		// mismatch: attribute
		dir := "accept-invalid"
		if !accepted {
			dir = "reject-valid"
		}
		if !fresh {
			_, ferr, _ := w.parseGuarded(in, cfg, false, true)
			if (ferr == nil) != accepted {
				w.Violation("C01/reuse-dependent/"+dir+"/"+q(in), fmt.Sprintf("Parse (%s) with a reused ParsedJson %s, fresh call does not: %s", cfg, dir, q(in)), cs)
				continue
			}
		}
		min := in
		if st.minimized < 3000 && len(in) <= 1<<16 {
			st.minimized++
			want := a.Class
			c := cfg
			min = minimize(in, func(b []byte) bool {
				if ref.Analyze(b).Class != want {
					return false
				}
				_, e, p := w.parseMin(b, c, false)
				return p == nil && (e == nil) == accepted
			}, 1500)
		}
		w.Violation("C01/"+dir+"/"+q(min), fmt.Sprintf("Parse (%s) %s: class=%s err=%v input=%s (minimised from %s)", cfg, dir, a.Class, err, q(min), q(in)), cs)
	}
	if st.n%8 == 0 && a.Class != ref.Either {
		// the reuse object was last used by ParseND (pointer style): no NDJSON behaviour may leak into Parse
		w.setKernel(false)
		nd, e := simdjson.ParseND([]byte("{\"nd\":1}\n[2]\n"), st.ndReuse)
		if e == nil {
			st.ndReuse = nd
			var pj *simdjson.ParsedJson
			var err error
			pan := walk.Guard(func() error { pj, err = simdjson.Parse(in, nd); return nil })
			w.Eval(1)
			if pan == nil && (err == nil) != (a.Class == ref.MustAccept) {
				w.Violation("C01/after-ParseND-reuse/"+map[bool]string{true: "accept-invalid", false: "reject-valid"}[err == nil]+"/"+q(in), fmt.Sprintf("Parse with a reuse object last used by ParseND: class=%s err=%v input=%s", a.Class, err, q(in)), cs)
			}
			if err == nil && pj != nil {
				st.ndReuse = pj
			} else {
				st.ndReuse = nil
			}
		}
	}
	if w.WantSample() {
		w.Sample(map[string]interface{}{"gen": g, "input": q(in), "class": a.Class.String()})
	}
}

func runC01(w *W) {
	st := &c01State{}
	judge := func(g string, in []byte) { w.c01Judge(st, g, in) }
	th := w.thorough()

	if th {
		w.genTokens(6, judge)
	} else {
		w.genTokens(5, judge)
	}
	if th {
		w.genNumSpellings(8, judge)
	} else {
		w.genNumSpellings(6, judge)
	}
	w.genNumLong(judge)
	w.genAtoms(judge)

	var off64, off192 []int
	if th {
		for i := 0; i < 64; i++ {
			off64 = append(off64, i)
		}
		for i := 0; i < 192; i++ {
			off192 = append(off192, i)
		}
	} else {
		r := w.rng("offsets")
		off64 = []int{0, 1, 29, 30, 31, 32, 33, 57, 58, 59, 60, 61, 62, 63, r.Intn(64), r.Intn(64)}
		off192 = []int{0, 1, 30, 31, 32, 33, 61, 62, 63, 64, 65, 95, 96, 127, 128, 129, 190, 191, r.Intn(192), r.Intn(192), r.Intn(192)}
	}
	w.genStringBytes(off64, judge)
	var ordinals []int
	for _, base := range []int{1408, 2816, 4224} {
		lo, hi := base-8, base+8
		if !th {
			lo, hi = base-3, base+3
		}
		for n := lo; n <= hi; n++ {
			ordinals = append(ordinals, n)
		}
	}
	w.genAlign(off192, ordinals, judge)
	w.genBoundaryPairs(judge)
	w.genFillBlock(fillStep(w), judge)
	w.genBufferFill(judge)
	w.genFillThenBlank(judge)
	w.genBlankRunInString(judge)
	w.genCarryThenNothing(judge)
	w.genDenseSizes(judge)
	w.genBackslashRuns(judge)
	w.genSpaceInDense([]int{1500, 9000}, judge)
	w.genAlignedPartial(10, 110, 3, judge)
	w.genAlignedPartial(130, 180, 2, judge)
	if th {
		w.genAlignLarge([]int{64 << 10, 300 << 10, 2 << 20}, judge)
	} else {
		w.genAlignLarge([]int{64 << 10}, judge)
	}
	if th {
		docs := w.seedDocs(4<<20, 400, 60)
		w.genMutants(docs, func(size int) int {
			switch {
			case size < 4<<10:
				return 400
			case size < 256<<10:
				return 200
			default:
				return 40
			}
		}, judge)
		w.genRandom(2000000, 256, judge)
	} else {
		docs := w.seedDocs(700<<10, 100, 20)
		w.genMutants(docs, func(size int) int {
			switch {
			case size < 4<<10:
				return 100
			case size < 64<<10:
				return 40
			default:
				return 6
			}
		}, judge)
		w.genRandom(200000, 256, judge)
	}
	// the accept direction on the whole valid-document workload of C02
	if th {
		w.eachValidDoc(20, judge)
	} else {
		w.eachValidDoc(2, judge)
	}
	w.Count("configs", len(w.configs()))
	if !w.hasAVX512 {
		w.Count("avx512_unavailable_only_avx2_exercised", 1)
	}
}

func replayC01(w *W, cs *ev.Case) {
	st := &c01State{}
	w.c01Judge(st, cs.Gen, cs.Input)
	a := ref.Analyze(cs.Input)
	fmt.Printf("input=%s class=%s\n", q(cs.Input), a.Class)
	for _, cfg := range w.configs() {
		_, err, pan := w.parseGuarded(cs.Input, cfg, false, true)
		fmt.Printf("  %s: err=%v panic=%v\n", cfg, err, pan)
	}
}
