package main

import (
	"bytes"
	"encoding/binary"
	"errors"
	"fmt"
	"io"
	"math"
	"regexp"
	"strconv"
	"strings"
	"sync"

	"github.com/klauspost/compress/s2"
	"github.com/klauspost/compress/zstd"
	simdjson "github.com/minio/simdjson-go"

	"verifharness/ev"
	"verifharness/gen"
	"verifharness/walk"
)

func init() { register("C19", runC19, replayC19) }

const c19MaxDeclared = 2 << 20 // bytes; blobs declaring more are outside the claim ("small enough to allocate")

// container is the parsed framing of a serialized blob.
type container struct {
	version  byte
	tapeSize uint64
	secSize  [4]uint64 // declared uncompressed sizes: strings, message, tags, values
	typ      [4]byte
	present  [4]bool // block has a type byte and data
	plain    [4][]byte
	blkLen   [4]uint64 // when non-zero: the block-length varint to write instead of the true length
}

var (
	zdec *zstd.Decoder
	zenc *zstd.Encoder
	s2w  *s2.Writer
)

func init() {
	zdec, _ = zstd.NewReader(nil)
	zenc, _ = zstd.NewWriter(nil, zstd.WithEncoderCRC(false))
}

func parseContainer(blob []byte) (*container, error) {
	br := bytes.NewBuffer(blob)
	c := &container{}
	v, err := br.ReadByte()
	if err != nil {
		return nil, err
	}
	c.version = v
	if _, err := binary.ReadUvarint(br); err != nil {
		return nil, err
	}
	if c.tapeSize, err = binary.ReadUvarint(br); err != nil {
		return nil, err
	}
	for s := 0; s < 4; s++ {
		if s != 2 && s != 3 || true {
			if c.secSize[s], err = binary.ReadUvarint(br); err != nil {
				return nil, err
			}
		}
		size, err := binary.ReadUvarint(br)
		if err != nil {
			return nil, err
		}
		if size == 0 {
			continue
		}
		if size > uint64(br.Len()) {
			return nil, fmt.Errorf("block beyond input")
		}
		t, _ := br.ReadByte()
		data := br.Next(int(size - 1))
		c.typ[s] = t
		c.present[s] = true
		switch t {
		case 0:
			c.plain[s] = append([]byte{}, data...)
		case 1:
			p, err := io.ReadAll(s2.NewReader(bytes.NewReader(data)))
			if err != nil {
				return nil, err
			}
			c.plain[s] = p
		case 2:
			p, err := zdec.DecodeAll(data, nil)
			if err != nil {
				return nil, err
			}
			c.plain[s] = p
		default:
			return nil, fmt.Errorf("block type %d", t)
		}
	}
	return c, nil
}

func (c *container) build() []byte {
	var body []byte
	var tmp [binary.MaxVarintLen64]byte
	put := func(v uint64) {
		n := binary.PutUvarint(tmp[:], v)
		body = append(body, tmp[:n]...)
	}
	put(c.tapeSize)
	for s := 0; s < 4; s++ {
		put(c.secSize[s])
		if !c.present[s] {
			put(0)
			continue
		}
		var enc []byte
		switch c.typ[s] {
		case 1:
			var b bytes.Buffer
			if s2w == nil {
				s2w = s2.NewWriter(&b, s2.WriterBlockSize(64<<10))
			} else {
				s2w.Reset(&b)
			}
			s2w.Write(c.plain[s])
			s2w.Close()
			enc = b.Bytes()
		case 2:
			enc = zenc.EncodeAll(c.plain[s], nil)
		default:
			enc = c.plain[s]
		}
		if c.blkLen[s] != 0 {
			put(c.blkLen[s])
		} else {
			put(uint64(len(enc) + 1))
		}
		body = append(body, c.typ[s])
		body = append(body, enc...)
	}
	out := []byte{c.version}
	n := binary.PutUvarint(tmp[:], uint64(len(body)))
	out = append(out, tmp[:n]...)
	return append(out, body...)
}

func (c *container) clone() *container {
	d := *c
	for i := range d.plain {
		d.plain[i] = append([]byte{}, c.plain[i]...)
	}
	return &d
}

// declaredMax walks the framing as far as it parses and returns the largest
// allocation (bytes) the header declares.
func declaredMax(blob []byte) uint64 {
	br := bytes.NewBuffer(blob)
	if _, err := br.ReadByte(); err != nil {
		return 0
	}
	if _, err := binary.ReadUvarint(br); err != nil {
		return 0
	}
	ts, err := binary.ReadUvarint(br)
	if err != nil {
		return 0
	}
	max := ts * 8
	if ts > 1<<40 {
		return 1 << 62
	}
	for s := 0; s < 4; s++ {
		sz, err := binary.ReadUvarint(br)
		if err != nil {
			return max
		}
		if sz > max {
			max = sz
		}
		size, err := binary.ReadUvarint(br)
		if err != nil {
			return max
		}
		if size == 0 {
			continue
		}
		if size > uint64(br.Len()) {
			return max
		}
		blk := br.Next(int(size))
		if len(blk) > 1 && blk[0] == 2 {
			if z := zstdDeclared(blk[1:]); z > max {
				max = z
			}
		}
	}
	return max
}

// damageAllocatable reports whether a damaged copy of a blob still declares sizes the statement calls
// "small enough to allocate": not more than the intact blob declares plus c19MaxDeclared. A flipped
// bit in a size varint or in a zstd frame header makes Deserialize allocate what it says (gigabytes)
// before it returns its error; histories in other checks skip such damage the way C19 does.
func damageAllocatable(orig, bad []byte) bool {
	return declaredMax(bad) <= declaredMax(orig)+c19MaxDeclared
}

// zstdDeclared returns what a zstd frame header declares it will need
// (frame content size or window size), 0 if it is not a parsable header.
func zstdDeclared(b []byte) uint64 {
	if len(b) < 6 || b[0] != 0x28 || b[1] != 0xb5 || b[2] != 0x2f || b[3] != 0xfd {
		return 0
	}
	fhd := b[4]
	p := 5
	single := fhd&0x20 != 0
	var window uint64
	if !single {
		wd := b[p]
		p++
		exp := uint64(wd >> 3)
		mant := uint64(wd & 7)
		base := uint64(1) << (10 + exp)
		window = base + base/8*mant
	}
	switch fhd & 3 {
	case 1:
		p++
	case 2:
		p += 2
	case 3:
		p += 4
	}
	var fcs uint64
	switch fhd >> 6 {
	case 0:
		if single && p < len(b) {
			fcs = uint64(b[p])
		}
	case 1:
		if p+2 <= len(b) {
			fcs = uint64(binary.LittleEndian.Uint16(b[p:])) + 256
		}
	case 2:
		if p+4 <= len(b) {
			fcs = uint64(binary.LittleEndian.Uint32(b[p:]))
		}
	case 3:
		if p+8 <= len(b) {
			fcs = binary.LittleEndian.Uint64(b[p:])
		} else {
			fcs = 1 << 62
		}
	}
	if window > fcs {
		return window
	}
	return fcs
}

var numRe = regexp.MustCompile(`[0-9]+`)
var frameLineRe = regexp.MustCompile(`(?m)^github\.com/minio/simdjson-go\.(.+)\(`)

// panicKey builds a stable key from a recovered panic: normalised message and
// the innermost library function on the stack.
func panicKey(err error) string {
	pe, ok := err.(*walk.PanicError)
	if !ok {
		return nosp(numRe.ReplaceAllString(err.Error(), "#"))
	}
	msg := numRe.ReplaceAllString(fmt.Sprint(pe.Val), "#")
	if len(msg) > 70 {
		msg = msg[:70]
	}
	fn := "?"
	if m := frameLineRe.FindStringSubmatch(pe.Stack); m != nil {
		fn = m[1]
	}
	return nosp(fn + ":" + msg)
}

type c19State struct {
	look    *simdjson.ParsedJson // recycled destination full of tag look-alikes
	n       int
	idx     int
	ser     *simdjson.Serializer
	reused  *simdjson.ParsedJson // previously filled by a larger document (cap > len afterwards)
	bigBlob []byte
}

// sweepResult runs every reader over a result Deserialize returned.
func sweepResult(pj *simdjson.ParsedJson) error {
	if pj == nil {
		return nil
	}
	// a reader that is still going after more steps than the tape has entries is cycling:
	// the caller's loop would never end (decided on steps, not on time)
	if err := walk.Guard(func() error {
		if _, e := walk.Into(pj); e == walk.ErrSteps {
			return errNonTerm
		}
		return nil
	}); err != nil {
		return fmt.Errorf("AdvanceInto walk: %w", err)
	}
	// Recursive readers (and Array.Interface, which pre-allocates its remaining extent at
	// every level and so is quadratic in the nesting depth) only run on moderately nested
	// tapes; deep nesting is exercised separately by C05's deep mode.
	deep := tapeDepth(pj) > 3000
	steps := []func(){
		func() {
			if _, e := walk.Adv(pj); errors.Is(e, walk.ErrSteps) {
				panic(errNonTerm)
			}
		},
		func() {
			if _, e := walk.IterCB(pj); errors.Is(e, walk.ErrSteps) {
				panic(errNonTerm)
			}
		},
		func() { walk.Elems(pj) },
		func() { walk.Iface(pj) },
		func() { it := pj.Iter(); it.MarshalJSON() },
		func() {
			it := pj.Iter()
			it.FindElement(nil, "a", "b")
			it.Advance()
			it.PeekNext()
			it.PeekNextTag()
			var d simdjson.Iter
			it.AdvanceIter(&d)
			d.MarshalJSON()
		},
		func() {
			s := simdjson.NewSerializer()
			s.Serialize(nil, *pj)
		},
	}
	steps = append(steps, func() {
		// loops a caller would write, carrying on after per-element errors: each must end
		// within as many rounds as the tape has entries
		bound := len(pj.Tape) + 2
		calls := 0
		pj.ForEach(func(i simdjson.Iter) error {
			if calls++; calls > bound {
				panic(errNonTerm)
			}
			i.MarshalJSON()
			return nil
		})
		it := pj.Iter()
		for n := 0; it.Advance() != simdjson.TypeNone; n++ {
			if n > bound {
				panic(errNonTerm)
			}
			it.Root(nil)
		}
		it = pj.Iter()
		var d simdjson.Iter
		for n := 0; ; n++ {
			t, _ := it.AdvanceIter(&d)
			if t == simdjson.TypeNone {
				break
			}
			if n > bound {
				panic(errNonTerm)
			}
			d.Type()
		}
	})
	steps = append(steps, func() {
		// accessors called on an iterator wherever a walk can leave it: after MarshalJSON consumed
		// the document, at the end of an AdvanceInto walk, and at every entry of small tapes
		poke := func(it simdjson.Iter) {
			c := it
			c.Root(nil)
			c = it
			c.FindElement(nil, "a")
			if !deep {
				c = it
				c.Interface()
			}
			c = it
			c.Object(nil)
			c = it
			c.Array(nil)
			c = it
			c.StringBytes()
			c.StringCvt()
			c.Int()
			c.Uint()
			c.Float()
			c.Bool()
			c.PeekNext()
			c.PeekNextTag()
			var d simdjson.Iter
			c.AdvanceIter(&d)
			c = it
			c.Advance()
			c = it
			c.AdvanceInto()
			c = it
			c.MarshalJSON()
		}
		it := pj.Iter()
		it.MarshalJSON()
		poke(it)
		it = pj.Iter()
		small := len(pj.Tape) <= 64
		for n := 0; n <= len(pj.Tape)+2; n++ {
			if small || n+3 >= len(pj.Tape) {
				poke(it)
			}
			if it.AdvanceInto() == simdjson.TagEnd {
				break
			}
		}
		poke(it)
	})
	steps = append(steps, func() {
		if err := sweepContainers(pj, deep); err != nil {
			panic(err)
		}
	})
	names := []string{"Advance walk", "ForEach walk", "Object.Parse walk", "Interface", "MarshalJSON", "FindElement/Peek/AdvanceIter", "Serialize", "root-level loops", "accessors on a spent iterator", "container accessors"}
	for i, f := range steps {
		if deep && (i == 1 || i == 2 || i == 3) {
			continue
		}
		if i == 6 {
			// Serialize documents that it panics on tapes it cannot represent (unknown tags,
			// strings out of range); that is its contract, not a traversal: not judged.
			continue
		}
		if err := walk.Guard(func() error { f(); return nil }); err != nil {
			return fmt.Errorf("%s: %w", names[i], err)
		}
	}
	return nil
}

var errNonTerm = errors.New("reader does not terminate: still going after more steps than the tape has entries")

// sweepContainers visits the containers of a returned result and runs the typed and bulk
// accessors on each: Array.As*, FirstType, ForEach, Interface, MarshalJSON; Object.Map, Parse
// (+Elements), FindKey, FindPath, ForEach with and without a key filter, NextElement.
func sweepContainers(pj *simdjson.ParsedJson, deep bool) error {
	limit := 12
	if len(pj.Tape) <= 96 {
		limit = 1 << 30
	}
	it := pj.Iter()
	seen := 0
	for steps := 0; steps <= len(pj.Tape)+2; steps++ {
		tag := it.AdvanceInto()
		if tag == simdjson.TagEnd {
			break
		}
		if tag != simdjson.TagArrayStart && tag != simdjson.TagObjectStart {
			continue
		}
		if seen++; seen > limit {
			break
		}
		c := it
		bound := len(pj.Tape) + 2
		run := func(name string, f func()) error {
			if err := walk.Guard(func() error { f(); return nil }); err != nil {
				return fmt.Errorf("%s: %w", name, err)
			}
			return nil
		}
		if tag == simdjson.TagArrayStart {
			a, err := c.Array(nil)
			if err != nil {
				continue
			}
			ops := []struct {
				n string
				f func(a *simdjson.Array)
			}{
				{"Array.AsFloat", func(a *simdjson.Array) { a.AsFloat() }},
				{"Array.AsInteger", func(a *simdjson.Array) { a.AsInteger() }},
				{"Array.AsUint64", func(a *simdjson.Array) { a.AsUint64() }},
				{"Array.AsString", func(a *simdjson.Array) { a.AsString() }},
				{"Array.AsStringCvt", func(a *simdjson.Array) { a.AsStringCvt() }},
				{"Array.FirstType", func(a *simdjson.Array) { a.FirstType() }},
				{"Array.MarshalJSON", func(a *simdjson.Array) { a.MarshalJSON() }},
				{"Array.ForEach", func(a *simdjson.Array) {
					n := 0
					a.ForEach(func(i simdjson.Iter) {
						if n++; n > bound {
							panic(errNonTerm)
						}
						i.Type()
					})
				}},
				{"Array.Iter+Advance", func(a *simdjson.Array) {
					ai := a.Iter()
					for n := 0; ai.Advance() != simdjson.TypeNone; n++ {
						if n > bound {
							panic(errNonTerm)
						}
					}
				}},
			}
			if !deep {
				ops = append(ops, struct {
					n string
					f func(a *simdjson.Array)
				}{"Array.Interface", func(a *simdjson.Array) { a.Interface() }})
			}
			for _, op := range ops {
				cp := *a
				if err := run(op.n, func() { op.f(&cp) }); err != nil {
					return err
				}
			}
			// and one after the other on the same Array value (the typed accessors consume it:
			// what one call leaves behind is what the next one starts from), in two orders
			for pass := 0; pass < 2; pass++ {
				cp := *a
				for k := range ops {
					op := ops[k]
					if pass == 1 {
						op = ops[len(ops)-1-k]
					}
					if err := run(op.n+" (after other accessors on the same Array)", func() { op.f(&cp) }); err != nil {
						return err
					}
				}
			}
			continue
		}
		o, err := c.Object(nil)
		if err != nil {
			continue
		}
		var firstKey string
		ops := []struct {
			n string
			f func(o *simdjson.Object)
		}{
			{"Object.NextElement", func(o *simdjson.Object) {
				var e simdjson.Iter
				for n := 0; ; n++ {
					name, t, err := o.NextElement(&e)
					if err != nil || t == simdjson.TypeNone {
						break
					}
					if n == 0 {
						firstKey = name
					}
					if n > bound {
						panic(errNonTerm)
					}
				}
			}},
			{"Object.FindKey", func(o *simdjson.Object) {
				var e simdjson.Element
				o.FindKey("a", &e)
				if el := o.FindKey(firstKey, nil); el != nil {
					el.Iter.Type()
				}
			}},
			{"Object.FindPath", func(o *simdjson.Object) {
				o.FindPath(nil, "a", "b")
				o.FindPath(nil, firstKey, "x")
			}},
			{"Object.ForEach", func(o *simdjson.Object) {
				n := 0
				o.ForEach(func(key []byte, i simdjson.Iter) {
					if n++; n > bound {
						panic(errNonTerm)
					}
				}, nil)
			}},
			{"Object.ForEach(onlyKeys)", func(o *simdjson.Object) {
				n := 0
				o.ForEach(func(key []byte, i simdjson.Iter) {
					if n++; n > bound {
						panic(errNonTerm)
					}
				}, map[string]struct{}{"a": {}, firstKey: {}})
			}},
			{"Object.Parse+Elements", func(o *simdjson.Object) {
				if el, err := o.Parse(nil); err == nil {
					el.MarshalJSON()
					el.Lookup(firstKey)
				}
			}},
		}
		if !deep {
			ops = append(ops, struct {
				n string
				f func(o *simdjson.Object)
			}{"Object.Map", func(o *simdjson.Object) { o.Map(nil) }})
		}
		for _, op := range ops {
			cp := *o
			if err := run(op.n, func() { op.f(&cp) }); err != nil {
				return err
			}
		}
		cp := *o
		for _, op := range ops {
			if err := run(op.n+" (after other accessors on the same Object)", func() { op.f(&cp) }); err != nil {
				return err
			}
		}
	}
	return nil
}

// c19Lookalike: two serialized documents (the second shifted by one tape word) of 600 floats whose
// bit patterns carry each tag letter in the top byte and a large number in the low 56 bits.
// (built on first use, not at process start: a worker's first use of the library's Serializer is what
// C20's cold-start trials are about)
var c19LookalikeOnce sync.Once
var c19Lookalike [2][]byte

func c19BuildLookalike() [2][]byte {
	var out [2][]byte
	for sh := 0; sh < 2; sh++ {
		var b bytes.Buffer
		b.WriteByte('[')
		if sh == 1 {
			b.WriteString("true,")
		}
		tags := []byte(`{}[]"rNludtfn`)
		for i := 0; i < 600; i++ {
			if i > 0 {
				b.WriteByte(',')
			}
			bits := uint64(tags[i%len(tags)])<<56 | 0x000fffffffffff00 | uint64(i)
			b.WriteString(strconv.FormatFloat(math.Float64frombits(bits), 'g', -1, 64))
		}
		b.WriteByte(']')
		pj, err := simdjson.Parse(b.Bytes(), nil)
		if err != nil {
			continue
		}
		s := simdjson.NewSerializer()
		s.CompressMode(simdjson.CompressNone)
		out[sh] = s.Serialize(nil, *pj)
	}
	return out
}

func (w *W) c19Try(st *c19State, g string, blob []byte) {
	st.idx++
	if !w.mine(st.idx) {
		return
	}
	if declaredMax(blob) > c19MaxDeclared {
		w.Count("skipped_header_or_zstd_frame_declares_more_than_2MiB", 1)
		return
	}
	cs := &ev.Case{Gen: g, Input: blob}
	w.Journal(cs)
	if w.Skip() {
		return
	}
	st.n++
	if st.ser == nil {
		st.ser = simdjson.NewSerializer()
	}
	past := false
	nvar := 2
	if len(blob) <= 4096 {
		nvar = 3 // small blobs also into the look-alike destination
	}
	for variant := 0; variant < nvar; variant++ {
		var dst *simdjson.ParsedJson
		if variant == 2 {
			// a destination whose tape is full of number payload words that look like tape entries
			// (top byte = every tag letter, low bits large): whatever Deserialize reads from a slot
			// it has not written in this call is not a tape entry. Refilled before every use (small).
			c19LookalikeOnce.Do(func() { c19Lookalike = c19BuildLookalike() })
			lk := c19Lookalike[st.n%2]
			if lk == nil {
				continue
			}
			st.look, _ = simdjson.NewSerializer().Deserialize(lk, st.look)
			dst = st.look
			if dst == nil {
				continue
			}
		}
		if variant == 1 {
			// a destination that held a larger document before: capacities exceed lengths
			if st.reused == nil && st.bigBlob != nil {
				st.reused, _ = simdjson.NewSerializer().Deserialize(st.bigBlob, nil)
			}
			if st.reused != nil && st.n%16 == 0 {
				// refill so that the capacity stays large
				st.reused, _ = st.ser.Deserialize(st.bigBlob, st.reused)
			}
			dst = st.reused
			if dst == nil {
				continue
			}
		}
		var out *simdjson.ParsedJson
		var derr error
		armCall()
		perr := walk.Guard(func() error {
			out, derr = st.ser.Deserialize(blob, dst)
			return nil
		})
		disarmCall()
		w.Eval(1)
		if perr != nil {
			w.Violation("C19/Deserialize-panic/"+panicKey(perr), fmt.Sprintf("Deserialize panicked (dst %s): %v; blob=%s from %s", []string{"nil", "reused", "look-alike"}[variant], perr, q(blob), g), cs)
			if variant == 1 {
				st.reused = nil
			}
			if variant == 2 {
				st.look = nil
			}
			continue
		}
		if derr != nil {
			w.Count("returned_error", 1)
			if strings.Contains(derr.Error(), "tags") || strings.Contains(derr.Error(), "values") || strings.Contains(derr.Error(), "tape") || strings.Contains(derr.Error(), "reading") || strings.Contains(derr.Error(), "unknown tag") || strings.Contains(derr.Error(), "extends") {
				past = true
				w.Count("reached_tape_rebuild", 1)
			}
			continue
		}
		w.Count("returned_result", 1)
		past = true
		memArmed.Store(true)
		armCall()
		err := sweepResult(out)
		disarmCall()
		memArmed.Store(false)
		if err != nil {
			w.Violation("C19/traverse-panic/"+panicKey(unwrapPanic(err)), fmt.Sprintf("reading a result Deserialize returned panicked: %v; blob=%s from %s", err, q(blob), g), cs)
		}
		w.Eval(1)
	}
	if past {
		w.Nontrivial(gen.Hash64(blob))
	}
	if w.WantSample() {
		w.Sample(map[string]interface{}{"gen": g, "blob": q(blob)})
	}
}

func unwrapPanic(err error) error {
	for e := err; e != nil; {
		if pe, ok := e.(*walk.PanicError); ok {
			return pe
		}
		u, ok := e.(interface{ Unwrap() error })
		if !ok {
			break
		}
		e = u.Unwrap()
	}
	return err
}

func runC19(w *W) {
	st := &c19State{}
	th := w.thorough()
	r := w.rng("c19")
	// source blobs
	type src struct {
		name string
		blob []byte
	}
	var srcs []src
	mk := func(name string, text []byte, nd bool, edits int) {
		d := w.c11MakeDoc(r, name, text, nd, edits)
		if d == nil {
			return
		}
		for _, m := range compModes {
			s := simdjson.NewSerializer()
			s.CompressMode(m)
			blob := s.Serialize(nil, *d.pj)
			srcs = append(srcs, src{fmt.Sprintf("%s-mode%d", name, m), blob})
		}
	}
	mk("tiny", []byte(`[1]`), false, 0)
	mk("small", []byte(`{"a":1,"b":"two","c":[3,4.5,true,null,{"d":"e"}],"f":{"g":[],"h":{}},"n":99999999999999999999}`), false, 0)
	mk("edited", []byte(`{"a":[1,2,3,{"x":"y"}],"b":"str","c":{"k":[true,false]},"d":"gone"}`), false, 3)
	mk("nd", []byte("{\"a\":1}\n[2,\"x\"]\n{\"b\":{\"c\":null}}\n"), true, 1)
	mk("deep", gen.Nest(140, 2, `[1,"x"]`), false, 0) // deeper than any preallocated scope stack (100, 128)
	mk("medium", gen.Doc(r.Split(), gen.DocCfg{Size: 3000, MaxDepth: 5, MaxFan: 6, Esc: 20, DupKeys: true}), false, 2)
	big := w.c11MakeDoc(r, "big", gen.Doc(r.Split(), gen.DocCfg{Size: 60000, MaxDepth: 5, MaxFan: 8, Esc: 20, DupKeys: true}), false, 0)
	if big != nil {
		st.bigBlob = simdjson.NewSerializer().Serialize(nil, *big.pj)
	}
	if len(srcs) == 0 {
		w.Inconclusive("no source blobs")
		return
	}
	// sanity: unmutated blobs must deserialize
	for _, s := range srcs {
		if _, err := simdjson.NewSerializer().Deserialize(s.blob, nil); err != nil {
			w.Inconclusive("source blob does not deserialize: " + err.Error())
			return
		}
	}
	tagLetters := []byte{'"', 'l', 'u', 'd', 'n', 't', 'f', '{', '}', '[', ']', 'r', 'N', 'e', 0, 'Z'}
	for _, s := range srcs {
		blob := s.blob
		small := len(blob) <= 400
		// 1. truncations
		for l := 0; l < len(blob); l++ {
			if small || th || (l+int(w.Out.Seed))%13 == 0 || l < 40 {
				w.c19Try(st, "truncate:"+s.name, blob[:l])
			}
		}
		// 2. bit flips
		for i := 0; i < len(blob); i++ {
			if !(small || i < 48 || (i+int(w.Out.Seed))%17 == 0 || th && i%3 == 0) {
				continue
			}
			for b := uint(0); b < 8; b++ {
				m := append([]byte{}, blob...)
				m[i] ^= 1 << b
				w.c19Try(st, "bitflip:"+s.name, m)
			}
		}
		// 3. byte substitutions
		for i := 0; i < len(blob); i++ {
			if !(small || i < 48 || (i+int(w.Out.Seed))%11 == 0) {
				continue
			}
			for _, c := range append([]byte{0, 1, 0x7f, 0x80, 0xff}, tagLetters[:6]...) {
				if blob[i] == c {
					continue
				}
				m := append([]byte{}, blob...)
				m[i] = c
				w.c19Try(st, "subst:"+s.name, m)
			}
		}
		// 5. framing-preserving structural mutation
		c, err := parseContainer(blob)
		if err != nil {
			w.Count("container_not_parsed_by_harness", 1)
			continue
		}
		if rebuilt := c.build(); true {
			if _, err := simdjson.NewSerializer().Deserialize(rebuilt, nil); err != nil {
				w.Inconclusive("harness re-framing of an unmutated blob does not deserialize: " + err.Error())
				return
			}
		}
		tags, vals := c.plain[2], c.plain[3]
		// tags
		for i := 0; i < len(tags); i++ {
			if !(len(tags) <= 80 || i < 24 || i >= len(tags)-8 || (i+int(w.Out.Seed))%9 == 0) {
				continue
			}
			for _, t := range tagLetters {
				if tags[i] == t {
					continue
				}
				m := c.clone()
				m.plain[2][i] = t
				w.c19Try(st, "tag-swap:"+s.name, m.build())
			}
			// delete / duplicate a tag
			m := c.clone()
			m.plain[2] = append(m.plain[2][:i:i], tags[i+1:]...)
			m.secSize[2]--
			w.c19Try(st, "tag-delete:"+s.name, m.build())
			m = c.clone()
			m.plain[2] = append(append(append([]byte{}, tags[:i]...), tags[i]), tags[i:]...)
			m.secSize[2]++
			w.c19Try(st, "tag-dup:"+s.name, m.build())
		}
		// nop runs measured against the declared tape end: a prefix of the tag stream,
		// then exactly (or one off) as many N tags as tape words remain, then one more tag
		tagWords := func(t byte) int {
			switch t {
			case '"', 'l', 'u', 'd', 'e':
				return 2
			}
			return 1
		}
		tagVals := func(t byte) int {
			switch t {
			case '"', 'e':
				return 16
			case 'l', 'u', 'd', '{', '[', 'r':
				return 8
			}
			return 0
		}
		valsOf := func(ts []byte) int {
			n := 0
			for _, t := range ts {
				n += tagVals(t)
			}
			return n
		}
		clipVals := func(n int) []byte {
			if n > len(vals) {
				n = len(vals)
			}
			return append([]byte{}, vals[:n]...)
		}
		used := 0
		for i := 0; i <= len(tags); i++ {
			if i > 0 {
				used += tagWords(tags[i-1])
			}
			if !(len(tags) <= 80 || i < 12 || i >= len(tags)-12 || (i+int(w.Out.Seed))%29 == 0) {
				continue
			}
			rem := int(c.tapeSize) - used
			for _, L := range []int{rem - 2, rem - 1, rem, rem + 1} {
				if L <= 0 || L > 1<<16 {
					continue
				}
				for _, t := range append([]byte{'N'}, tagLetters...) {
					m := c.clone()
					m.plain[2] = append(append(append([]byte{}, tags[:i]...), bytes.Repeat([]byte{'N'}, L)...), t)
					if t == 'N' {
						m.plain[2] = m.plain[2][:len(m.plain[2])-1] // the run alone ends the stream
					}
					m.secSize[2] = uint64(len(m.plain[2]))
					w.c19Try(st, "nop-tail:"+s.name, m.build())
					// the same with the value stream cut to what the remaining tags consume
					// (left-over values are rejected before anything else is looked at)
					m = m.clone()
					m.plain[3] = clipVals(valsOf(tags[:i]) + tagVals(t))
					m.secSize[3] = uint64(len(m.plain[3]))
					w.c19Try(st, "nop-tail-vals:"+s.name, m.build())
				}
			}
			// a span of tags replaced by a nop run of the same (or one off) word count
			for _, span := range []int{1, 2, 3, 5, 9} {
				if i+span > len(tags) {
					break
				}
				sw := 0
				for _, t := range tags[i : i+span] {
					sw += tagWords(t)
				}
				for _, L := range []int{sw - 1, sw, sw + 1} {
					if L <= 0 {
						continue
					}
					m := c.clone()
					m.plain[2] = append(append(append([]byte{}, tags[:i]...), bytes.Repeat([]byte{'N'}, L)...), tags[i+span:]...)
					m.secSize[2] = uint64(len(m.plain[2]))
					w.c19Try(st, "nop-span:"+s.name, m.build())
					m = m.clone()
					a, b := valsOf(tags[:i]), valsOf(tags[:i+span])
					if b <= len(vals) {
						m.plain[3] = append(clipVals(a), vals[b:]...)
						m.secSize[3] = uint64(len(m.plain[3]))
						w.c19Try(st, "nop-span-vals:"+s.name, m.build())
					}
				}
			}
		}
		// value words
		words := []uint64{0, 1, ^uint64(0), ^uint64(0) - 1, c.tapeSize, c.tapeSize - 1, c.tapeSize + 1, 1 << 56, 1 << 63, 1<<63 - 1, uint64(len(c.plain[1])), uint64(len(c.plain[1])) + 1, 2, 3}
		for i := 0; i+8 <= len(vals); i += 8 {
			if !(len(vals) <= 400 || i < 96 || i >= len(vals)-24 || (i/8+int(w.Out.Seed))%9 == 0) {
				continue
			}
			for _, v := range words {
				m := c.clone()
				binary.LittleEndian.PutUint64(m.plain[3][i:], v)
				w.c19Try(st, "value-word:"+s.name, m.build())
			}
		}
		// sizes
		for sec := -1; sec < 4; sec++ {
			for _, d := range []int64{-8, -2, -1, 1, 2, 8, 1 << 20} {
				m := c.clone()
				if sec < 0 {
					m.tapeSize = uint64(int64(m.tapeSize) + d)
				} else {
					m.secSize[sec] = uint64(int64(m.secSize[sec]) + d)
				}
				w.c19Try(st, "declared-size:"+s.name, m.build())
			}
			m := c.clone()
			if sec < 0 {
				m.tapeSize = 0
			} else {
				m.secSize[sec] = 0
			}
			w.c19Try(st, "declared-size-zero:"+s.name, m.build())
		}
		// truncated plain sections with consistent framing
		for sec := 1; sec < 4; sec++ {
			for _, cut := range []int{1, 2, 7, 8, 9, 16} {
				if len(c.plain[sec]) > cut {
					m := c.clone()
					m.plain[sec] = m.plain[sec][:len(m.plain[sec])-cut]
					m.secSize[sec] = uint64(len(m.plain[sec]))
					w.c19Try(st, "section-cut:"+s.name, m.build())
				}
			}
		}
		// block-length varints: huge, wrapping and off-by-one values
		for sec := 0; sec < 4; sec++ {
			true1 := uint64(len(c.plain[sec]) + 1)
			for _, v := range []uint64{1<<63 + 2, 1 << 63, 1<<63 + 1, ^uint64(0), ^uint64(0) - 1, 1 << 62, 1 << 32, 1<<31 + 1, true1 + 1, true1 - 1, 1, 2, uint64(len(blob)), uint64(len(blob)) + 1} {
				m := c.clone()
				m.present[sec] = true
				m.blkLen[sec] = v
				w.c19Try(st, "block-length:"+s.name, m.build())
			}
		}
		// block types
		for sec := 0; sec < 4; sec++ {
			for t := byte(0); t < 5; t++ {
				m := c.clone()
				m.typ[sec] = t
				m.present[sec] = true
				w.c19Try(st, "block-type:"+s.name, m.build())
			}
		}
		// versions
		for _, v := range []byte{0, 1, 2, 3, 4, 255} {
			m := c.clone()
			m.version = v
			w.c19Try(st, "version:"+s.name, m.build())
		}
	}
	// 4. splices between blobs of different modes
	ns := 15000
	nr := 100000
	if th {
		ns, nr = 400000, 3000000
	}
	for k := 0; k < ns; k++ {
		rr := r.Split()
		a := srcs[rr.Intn(len(srcs))].blob
		b := srcs[rr.Intn(len(srcs))].blob
		i, j := rr.Intn(len(a)+1), rr.Intn(len(b)+1)
		w.c19Try(st, "splice", append(append([]byte{}, a[:i]...), b[j:]...))
	}
	// combined structural mutations
	for k := 0; k < ns; k++ {
		rr := r.Split()
		s := srcs[rr.Intn(len(srcs))]
		c, err := parseContainer(s.blob)
		if err != nil {
			continue
		}
		for m := 0; m < 1+rr.Intn(3); m++ {
			switch rr.Intn(4) {
			case 0:
				if len(c.plain[2]) > 0 {
					c.plain[2][rr.Intn(len(c.plain[2]))] = tagLetters[rr.Intn(len(tagLetters))]
				}
			case 1:
				if len(c.plain[3]) >= 8 {
					i := rr.Intn(len(c.plain[3])/8) * 8
					binary.LittleEndian.PutUint64(c.plain[3][i:], []uint64{0, 1, ^uint64(0), c.tapeSize, rr.Uint64() % (c.tapeSize + 2), 1 << 60}[rr.Intn(6)])
				}
			case 2:
				c.tapeSize = uint64(int64(c.tapeSize) + int64(rr.Intn(5)) - 2)
			case 3:
				if len(c.plain[2]) > 1 {
					i := rr.Intn(len(c.plain[2]))
					c.plain[2] = append(c.plain[2][:i:i], c.plain[2][i+1:]...)
					c.secSize[2] = uint64(len(c.plain[2]))
				}
			}
		}
		w.c19Try(st, "combo:"+s.name, c.build())
	}
	// 6. random bytes, with a plausible header
	for k := 0; k < nr; k++ {
		rr := r.Split()
		b := rr.Bytes(rr.Intn(64))
		if len(b) > 2 && rr.Bool() {
			b[0] = byte(rr.Intn(4))
			b[1] = byte(len(b) - 2)
		}
		w.c19Try(st, "random", b)
	}
}

func replayC19(w *W, cs *ev.Case) {
	w.Out.NShards = 1
	st := &c19State{}
	w.c19Try(st, cs.Gen, cs.Input)
}

// tapeDepth returns the maximum container nesting on a tape (a plain scan).
func tapeDepth(pj *simdjson.ParsedJson) int {
	d, max := 0, 0
	for i := 0; i < len(pj.Tape); i++ {
		switch byte(pj.Tape[i] >> 56) {
		case '{', '[':
			d++
			if d > max {
				max = d
			}
		case '}', ']':
			d--
		case '"', 'l', 'u', 'd':
			i++
		}
	}
	return max
}
