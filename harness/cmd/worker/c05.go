package main

import (
	"bytes"
	"fmt"
	"runtime"
	"strings"

	simdjson "github.com/minio/simdjson-go"

	"verifharness/ev"
	"verifharness/gen"
	"verifharness/guard"
	"verifharness/ref"
	"verifharness/walk"
)

func init() { register("C05", runC05, replayC05) }

type c05State struct {
	n        int
	idx      int
	baseline int
	start    *guard.Region
	strReg   *guard.Region
}

// leftBehind reports library goroutines that are still present (and blocked)
// after a call returned.
func (st *c05State) leftBehind() string {
	for i := 0; i < 200; i++ {
		if runtime.NumGoroutine() <= st.baseline {
			return ""
		}
		runtime.Gosched()
	}
	buf := make([]byte, 1<<18)
	n := runtime.Stack(buf, true)
	dump := string(buf[:n])
	for _, g := range strings.Split(dump, "\n\n") {
		if strings.Contains(g, "github.com/minio/simdjson-go.") && !strings.Contains(g, "main.") {
			hdr := g
			if k := strings.Index(g, "\n"); k > 0 {
				hdr = g[:k]
			}
			if strings.Contains(hdr, "chan ") || strings.Contains(hdr, "semacquire") || strings.Contains(hdr, "select") || strings.Contains(hdr, "sync.") {
				return g
			}
		}
	}
	return ""
}

// c05Call runs one Parse/ParseND call on in (already placed where it should live) and sweeps the result.
func (w *W) c05Call(st *c05State, g string, in []byte, nd bool, cfg Config, fresh bool, cs *ev.Case, deep bool, where string) (structurals bool) {
	api := "Parse"
	if nd {
		api = "ParseND"
	}
	if !deep {
		// (deep documents legitimately take long; everything else is bounded by the
		// processor-time budget of one call)
		armCall()
	}
	pj, err, pan := w.parseGuarded(in, cfg, nd, fresh)
	if !deep {
		disarmCall()
	}
	w.Eval(1)
	key := api + "/" + genClass(g)
	if pan != nil {
		w.Violation("C05/panic/"+key+"/"+panicKey(pan), fmt.Sprintf("%s panicked (%s, input %s, %s): %v; input=%s", api, cfg, where, g, pan, q(in)), cs)
		return
	}
	if (err == nil) == (pj == nil) {
		w.Violation("C05/error-and-result/"+key, fmt.Sprintf("%s returned err=%v and result-nil=%v; input=%s", api, err, pj == nil, q(in)), cs)
		return
	}
	if gdump := st.leftBehind(); gdump != "" {
		w.Violation("C05/goroutine-left-behind/"+key, fmt.Sprintf("after %s returned (err=%v) a library goroutine is still blocked:\n%s\ninput=%s", api, err, gdump, q(in)), cs)
		st.baseline = runtime.NumGoroutine()
	}
	// the index channel of the reused object must be empty
	slot := &w.reuse[b2i(cfg.Copy)]
	if slot.has {
		if l, c, ok := simdjson.VerifChanState(&slot.pj); ok && l != 0 {
			w.Violation("C05/index-channel-not-drained/"+key, fmt.Sprintf("after %s returned (err=%v) the index channel holds %d/%d entries; input=%s", api, err, l, c, q(in)), cs)
		}
	}
	if err != nil {
		w.Count("returned_error", 1)
		return
	}
	w.Count("returned_result", 1)
	if len(pj.Tape) > 2 {
		structurals = true
	}
	var serr error
	if deep {
		serr = walk.Guard(func() error {
			if _, e := walk.Into(pj); e == walk.ErrSteps {
				return e
			}
			if _, e := walk.Adv(pj); e == walk.ErrSteps {
				return e
			}
			it := pj.Iter()
			it.MarshalJSON()
			return nil
		})
	} else {
		armCall()
		serr = sweepResult(pj)
		disarmCall()
		if serr == nil {
			if _, e := walk.Adv(pj); e == walk.ErrSteps {
				serr = e
			}
		}
	}
	w.Eval(1)
	if serr != nil {
		w.Violation("C05/traverse/"+key+"/"+panicKey(unwrapPanic(serr)), fmt.Sprintf("reading the result of %s (%s): %v; input=%s", api, cfg, serr, q(in)), cs)
	}
	return
}

func (w *W) c05Judge(st *c05State, g string, in []byte) {
	st.idx++
	if !w.mine(st.idx) {
		return
	}
	cs := &ev.Case{Gen: g, Input: in}
	w.Journal(cs)
	if w.Skip() {
		return
	}
	st.n++
	if len(in) > 8192 {
		w.Count("inputs_async_path", 1)
	}
	// placements: end-aligned guard mapping (reads past the end fault), every 4th also start-aligned
	reg := w.guardRegion(len(in) + 64)
	any := false
	for ci, cfg := range w.configsAlt(st.n) {
		fresh := (st.n+ci)%32 == 0
		placed := in
		where := "heap"
		if reg != nil {
			placed = reg.End(in)
			where = "end-aligned guard mapping"
			w.Count("calls_input_end_aligned_to_guard_page", 1)
		}
		nd := (st.n+ci)%2 == 1
		if w.c05Call(st, g, placed, nd, cfg, fresh, cs, false, where) {
			any = true
		}
		if (st.n+ci)%4 == 0 && len(in) <= 1<<20 {
			if st.start == nil {
				st.start, _ = guard.New(1 << 20)
			}
			if st.start != nil {
				p2 := st.start.Start(in)
				w.Count("calls_input_start_aligned_to_guard_page", 1)
				w.c05Call(st, g, p2, !nd, cfg, false, cs, false, "start-aligned guard mapping")
			}
		}
	}
	_ = any
	if len(in) >= 2 && bytes.ContainsAny(in, "{}[],:\"") {
		// at least one byte stage 1 has to index
		w.Nontrivial(gen.Hash64(in))
	}
	if w.WantSample() {
		w.Sample(map[string]interface{}{"gen": g, "input": q(in)})
	}
}

// c05StringDst: the destination string buffer ends at a guard page, its
// capacity swept around the in-place/reallocate decision of the unescaper.
func (w *W) c05StringDst(st *c05State, doc []byte, total int) {
	if st.strReg == nil {
		st.strReg, _ = guard.New(1 << 20)
		if st.strReg == nil {
			return
		}
	}
	for delta := -40; delta <= 40; delta++ {
		c := total + 32 + delta
		if c < 128 {
			c = 128 + (delta + 40) // initialize() wants >= 128 to keep the buffer
		}
		if c < len(doc)/10 {
			continue
		}
		st.idx++
		if !w.mine(st.idx) {
			continue
		}
		cs := &ev.Case{Gen: "string-dst-capacity", Input: doc, A: int64(c)}
		w.Journal(cs)
		if w.Skip() {
			continue
		}
		for _, avx := range []bool{false, true} {
			if avx && !w.hasAVX512 {
				continue
			}
			w.setKernel(avx)
			slot := &w.reuse[1]
			if !slot.has {
				return
			}
			cp := slot.pj
			cp.Strings = &simdjson.TStrings{B: st.strReg.EndCap(c)}
			var pj *simdjson.ParsedJson
			var err error
			pan := walk.Guard(func() error {
				pj, err = simdjson.Parse(doc, &cp, simdjson.WithCopyStrings(true))
				return nil
			})
			w.Eval(1)
			w.Count("calls_string_buffer_end_aligned_to_guard_page", 1)
			if pan != nil {
				w.Violation("C05/panic/string-dst-capacity", fmt.Sprintf("Parse panicked with a %d-byte guard-terminated string buffer: %v; doc=%s", c, pan, q(doc)), cs)
				continue
			}
			if err == nil {
				if _, e := walk.Into(pj); e != nil {
					w.Violation("C05/traverse/string-dst-capacity", fmt.Sprintf("result unreadable with a %d-byte string buffer: %v; doc=%s", c, e, q(doc)), cs)
				}
			}
		}
	}
}

func dense(kind int, n int) []byte {
	switch kind {
	case 0:
		return bytes.Repeat([]byte("["), n)
	case 1:
		b := []byte("[")
		for len(b) < n-3 {
			b = append(b, "[],"...)
		}
		return append(b, "[]]"...)
	case 2:
		b := []byte("{")
		for len(b) < n-6 {
			b = append(b, `"":0,`...)
		}
		return append(b, `"":0}`...)
	case 3:
		return append(bytes.Repeat([]byte("["), n/2), bytes.Repeat([]byte("]"), n-n/2)...)
	case 4:
		b := []byte("[")
		for len(b) < n-2 {
			b = append(b, "1,"...)
		}
		return append(b, "1]"...)
	default:
		return bytes.Repeat([]byte("]"), n)
	}
}

// c05StringGrowth: documents whose copied strings outgrow the string buffer in every way its growth
// rule distinguishes. A fresh parser sizes the buffer at a tenth of the input (c); the documents hold
// a first string of 0.5..1.0 c and a second of 1.05..2.5 c (fits / does not fit the doubled buffer,
// with and without the 32 bytes of slack), padded with numbers to ten times c. The string kernel is
// assembly: what tells is the length-against-capacity invariant in parseGuarded, the guard pages and
// the reader sweep.
func (w *W) c05StringGrowth() {
	i := 0
	for _, c := range []int{128, 1000, 10000, 60000} {
		for _, fa := range []int{50, 90, 100} {
			for _, fb := range []int{105, 120, 150, 190, 200, 250} {
				for _, esc := range []bool{false, true} {
					i++
					if !w.mine(i) {
						continue
					}
					a, b := c*fa/100, c*fb/100
					first, second := strings.Repeat("a", a), strings.Repeat("b", b)
					if esc {
						second = `\n` + second[2:]
					}
					fill := 10*c - a - b - 12
					if fill < 2 {
						fill = 2
					}
					doc := []byte(`["` + first + `","` + second + `"` + strings.Repeat(",1", fill/2) + `]`)
					cs := &ev.Case{Gen: "string-growth", Input: doc}
					w.Journal(cs)
					if w.Skip() {
						continue
					}
					for _, cfg := range w.configs() {
						pj, err, pan := w.parseGuarded(doc, cfg, false, true)
						w.Eval(1)
						if pan != nil {
							w.Violation("C05/parse-panic/string-growth/"+panicKey(pan), fmt.Sprintf("Parse (%s, fresh parser) of a %d-byte document with strings of %d and %d bytes: %v", cfg, len(doc), a, b, pan), cs)
							continue
						}
						if err != nil {
							continue
						}
						if got, werr := walk.Into(pj); werr != nil || len(got) != 1 || len(got[0].A) < 2 || len(got[0].A[1].S) != len(second)-b2i(esc) {
							w.Violation("C05/traverse/string-growth", fmt.Sprintf("Parse (%s, fresh parser) of a %d-byte document with strings of %d and %d bytes: the result cannot be read back (%v)", cfg, len(doc), a, b, werr), cs)
						}
						w.Count("string_growth_documents_parsed", 1)
					}
				}
			}
		}
	}
}

func runC05(w *W) {
	st := &c05State{}
	th := w.thorough()
	switch w.Out.Mode {
	case "deep":
		w.c05Deep(st, th)
		return
	}
	runtime.GC()
	st.baseline = runtime.NumGoroutine()
	judge := func(g string, in []byte) { w.c05Judge(st, g, in) }
	race := w.Out.Variant == "race"
	r := w.rng("c05")
	if !race {
		w.c05StringGrowth()
	}
	if !race {
		// random bytes, several alphabets and lengths
		nr := 60000
		if th {
			nr = 5000000
		}
		for k := 0; k < nr; k++ {
			rr := r.Split()
			n := rr.Intn(300)
			switch {
			case k%50 == 0:
				n = rr.Intn(65536)
			case k%7 == 0:
				n = rr.Intn(4000)
			}
			b := gen.RandomBytes(rr, n, k%3)
			if n >= 2 && rr.Chance(1, 2) {
				b[0] = "[{"[rr.Intn(2)]
				b[n-1] = "]}"[rr.Intn(2)]
			}
			judge(fmt.Sprintf("random-%d", k%3), b)
		}
		w.genTokens(4, judge)
		w.genBoundaryPairs(judge)
		w.genFillBlock(fillStep(w), judge)
		w.genBufferFill(judge)
		w.genFillThenBlank(judge)
		w.genBlankRunInString(judge)
		w.genSpaceInDense([]int{1500, 9000}, judge)
		w.genAlignedPartial(10, 110, 3, judge)
		w.genAlignedPartial(130, 180, 2, judge)
		w.genAtoms(judge)
		w.genStringBytes([]int{0, 31, 32, 62, 63}, judge)
		// truncations of valid documents: every length (small), sampled (large)
		nd := 150
		if th {
			nd = 8000
		}
		for k := 0; k < nd; k++ {
			rr := r.Split()
			doc := gen.Doc(rr, gen.DocCfg{Size: []int{30, 120, 600, 3000}[k%4], MaxDepth: 4, MaxFan: 5, WS: k % 2, Esc: 40, LongStr: 20, DupKeys: true})
			for l := 0; l <= len(doc); l++ {
				if len(doc) < 200 || (l*7+k)%11 == 0 {
					judge("truncated", doc[:l])
				}
			}
		}
	}
	// maximal structural density at every internal boundary
	var lens []int
	for _, c := range []int{64, 128, 448, 512, 1408, 1536, 2816, 8192, 16 * 1408, 17 * 1408} {
		for d := -3; d <= 3; d++ {
			lens = append(lens, c+d)
		}
	}
	for d := -70; d <= 70; d += 7 {
		lens = append(lens, 8192+d)
	}
	lens = append(lens, 100*1408, 160*1408+17)
	if th {
		lens = append(lens, 1600*1408+5)
	}
	for _, n := range lens {
		if race && n <= 8192 {
			continue
		}
		for kind := 0; kind < 6; kind++ {
			judge(fmt.Sprintf("dense-k%d", kind), dense(kind, n))
		}
	}
	// early failure while stage 1 still has many buffers to produce; stage-1-only failures; both
	for _, nb := range []int{2, 20, 120} {
		base := gen.Aperiodic(r.Split(), nb*1408*3/2, 2)
		inner := base[1 : len(base)-1]
		judge("bad-first-token", append(append([]byte("[tru,"), inner...), ']'))
		judge("bad-first-byte", append([]byte("x"), base...))
		judge("stage1-control-char-at-end", append(append(append([]byte("["), inner...), []byte(",\"c\x01\"")...), ']'))
		judge("stage1-unterminated-string", append(append([]byte("["), inner...), []byte(`,"open`)...))
		judge("both", append(append(append([]byte("[tru,"), inner...), []byte(",\"c\x01\"")...), ']'))
		judge("no-structurals-tail", append(append([]byte{}, base...), bytes.Repeat([]byte("a"), 300)...))
		judge("valid-large", base)
	}
	w.genCarryThenNothing(judge)
	w.genDenseSizes(judge)
	w.genBackslashRuns(judge)
	// long stretches without a structural character, alone and right behind a buffer that fills
	// at a quote (carried index), terminated and not
	for _, L := range []int{65536, 131072, 200000} {
		x := strings.Repeat("x", L)
		for _, doc := range []string{
			`["` + x + `",1]`, `["` + x, `[1,` + strings.Repeat(" ", L) + `2]`, `[1,` + strings.Repeat(" ", L),
			`[` + strings.Repeat("0,", 703) + `"` + x + `"]`, `[` + strings.Repeat("0,", 703) + `"` + x,
			`[` + strings.Repeat("0,", 703) + `1` + strings.Repeat("2", L),
			`{"a":"` + x + "\"}\n{\"b\":1}", strings.Repeat(`{"a":0}`+"\n", 282) + `{"a":"` + x + "\"}\n{\"b\":1}",
		} {
			judge("no-structurals-long", []byte(doc))
		}
	}
	// nesting up to a depth the sweep's recursive readers can take
	for _, d := range []int{1, 127, 128, 129, 500, 2000} {
		for kind := 0; kind < 3; kind++ {
			judge(fmt.Sprintf("nest-%d", d), gen.Nest(d, kind, "1"))
			judge(fmt.Sprintf("nest-open-%d", d), gen.Nest(d, kind, "1")[:d*3/2+1])
		}
	}
	if !race {
		// mutants of realistic documents
		docs := w.seedDocs(300<<10, 80, 20)
		per := 25
		if th {
			per = 200
		}
		w.genMutants(docs, func(size int) int {
			if size > 64<<10 {
				return per / 5
			}
			return per
		}, judge)
		// destination string buffer at a guard page
		for k := 0; k < 12; k++ {
			rr := r.Split()
			var b bytes.Buffer
			b.WriteByte('[')
			total := 0
			ns := 1 + rr.Intn(6)
			for i := 0; i < ns; i++ {
				if i > 0 {
					b.WriteByte(',')
				}
				lit := gen.StringLit(rr, rr.Intn(200), rr.Bool())
				b.Write(lit)
				v, _, err := ref.ParseText(lit)
				if err == nil {
					total += len(v.S)
				}
			}
			b.WriteByte(']')
			w.c05StringDst(st, b.Bytes(), total)
		}
	}
}

// c05Deep: adversarial nesting depth; each case may end the process.
func (w *W) c05Deep(st *c05State, th bool) {
	depths := []int{10000, 100000, 1 << 20}
	apis := []string{"parse+iterative-readers", "Interface"} // ForEach-style readers recurse through harness callbacks too: a stack overflow there would not be attributable
	idx := 0
	for _, d := range depths {
		for kind := 0; kind < 3; kind++ {
			for _, api := range apis {
				idx++
				if !w.mine(idx) {
					continue
				}
				if d == 1<<20 && api == "Interface" && kind != 1 {
					// Array.Interface pre-allocates its whole remaining extent at every level: a
					// 2^20-deep array needs terabytes of address space and minutes before it gets
					// anywhere, and the process is then killed by the kernel rather than by Go —
					// nothing a monitor could attribute. Objects reach the same depth in seconds;
					// arrays and alternations are run to 10^5.
					continue
				}
				doc := gen.Nest(d, kind, "1")
				cs := &ev.Case{Gen: fmt.Sprintf("nest-depth=%d-kind=%d", d, kind), Text: api, A: int64(d), B: int64(kind)}
				w.Journal(cs)
				if w.Skip() {
					continue
				}
				pj, err := simdjson.Parse(doc, nil)
				w.Eval(1)
				if err != nil {
					w.Count("deep_documents_rejected_(C01)", 1)
					continue
				}
				switch api {
				case "parse+iterative-readers":
					w.c05Call(st, cs.Gen, doc, false, Config{w.hasAVX512, true}, true, cs, true, "heap")
					// and the open (unbalanced) variant
					w.c05Call(st, cs.Gen+"-open", doc[:len(doc)/2], false, Config{false, true}, true, cs, true, "heap")
				case "Interface":
					if d > 100000 && !th {
						// quadratic below the overflow; only the overflow depth itself is run in quick
					}
					perr := walk.Guard(func() error {
						it := pj.Iter()
						_, e := it.Interface()
						return e
					})
					w.Eval(1)
					if perr != nil && walk.IsPanic(perr) {
						w.Violation("C05/traverse/Interface/"+cs.Gen, fmt.Sprintf("Interface() panicked at nesting depth %d: %v", d, perr), cs)
					}
				case "ForEach":
					perr := walk.Guard(func() error {
						_, e := walk.IterCB(pj)
						return e
					})
					w.Eval(1)
					if perr != nil && walk.IsPanic(perr) {
						w.Violation("C05/traverse/ForEach/"+cs.Gen, fmt.Sprintf("ForEach readers panicked at nesting depth %d: %v", d, perr), cs)
					}
				}
				w.Count("deep_cases", 1)
				w.Checkpoint() // the next case may end this process
				w.Max("max_depth_survived", int64(d))
				w.Nontrivial(gen.Hash64([]byte(cs.Gen), []byte(api)))
			}
		}
	}
}

func replayC05(w *W, cs *ev.Case) {
	w.Out.NShards = 1
	st := &c05State{baseline: runtime.NumGoroutine()}
	if strings.HasPrefix(cs.Gen, "nest-depth=") {
		fmt.Println("deep-nesting cases end the process when they fail; run ./check C05 to reproduce:", cs.Gen, cs.Text)
		return
	}
	w.c05Judge(st, cs.Gen, cs.Input)
}
