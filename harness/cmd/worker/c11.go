package main

import (
	"bytes"
	"encoding/binary"
	"fmt"
	"os"
	"path/filepath"
	"strings"

	simdjson "github.com/minio/simdjson-go"

	"verifharness/ev"
	"verifharness/gen"
	"verifharness/ref"
	"verifharness/walk"
)

func init() { register("C11", runC11, replayC11) }

func dumpRoots(roots []*ref.Value) []byte {
	var b []byte
	for _, r := range roots {
		b = append(b, ref.Dump(r)...)
		b = append(b, '\n')
	}
	return b
}

// c11Doc is one source tape with its model.
type c11Doc struct {
	name  string
	pj    *simdjson.ParsedJson
	model []*ref.Value
	dump  []byte
	// raw: a tape whose (last) root entry was itself replaced with SetNull, which upstream
	// supports and tests (MarshalJSON gives "null"): the null and the deleted run then sit
	// outside any root and the tape ends in deleted entries. The structured readers have no
	// common view of such a tape, so a round trip is compared by the entry kinds of the
	// tape and the marshalled text.
	raw bool
}

// c11RootNulled returns a clone of d whose last root entry was replaced by null.
func c11RootNulled(d *c11Doc) *c11Doc {
	if d == nil {
		return nil
	}
	pj := d.pj.Clone(nil)
	ok := false
	walk.Guard(func() error {
		it := pj.Iter()
		for i := 0; i < len(d.model); i++ {
			if it.Advance() != simdjson.TypeRoot {
				return nil
			}
		}
		ok = it.SetNull() == nil
		return nil
	})
	if !ok {
		return nil
	}
	return &c11Doc{name: "root-nulled", pj: pj, raw: true, dump: []byte("raw")}
}

func c11RawView(pj *simdjson.ParsedJson) string {
	var b strings.Builder
	for _, w := range pj.Tape {
		// kinds only: payload words of numbers can hold any byte in this position, which is
		// the same on both sides of a round trip
		b.WriteByte(byte(w >> 56))
	}
	// every maximal run of deleted entries must count down to 1 (a reader lands on any of them)
	for i := 0; i < len(pj.Tape); {
		if byte(pj.Tape[i]>>56) != 'N' {
			i++
			continue
		}
		j := i
		for j < len(pj.Tape) && byte(pj.Tape[j]>>56) == 'N' {
			j++
		}
		for k := i; k < j; k++ {
			if skip := pj.Tape[k] & 0xffffffffffffff; skip == 0 || skip > uint64(j-k) {
				fmt.Fprintf(&b, " [deleted entry %d of run %d..%d has skip %d]", k, i, j, skip)
			}
		}
		i = j
	}
	b.WriteString(" | ")
	// a top-level Advance loop must come to an end (bracketed: a call that never returns is
	// decided by the processor-time budget)
	armCall()
	walk.Guard(func() error {
		it := pj.Iter()
		n := 0
		for it.Advance() != simdjson.TypeNone && n <= len(pj.Tape)+2 {
			n++
		}
		fmt.Fprintf(&b, "%d top-level values | ", n)
		return nil
	})
	disarmCall()
	walk.Guard(func() error {
		it := pj.Iter()
		text, err := it.MarshalJSON()
		b.Write(text)
		if err != nil {
			b.WriteString(" | " + err.Error())
		}
		return nil
	})
	return b.String()
}

// c11MakeDoc parses (and optionally edits) a document into an independent tape.
func (w *W) c11MakeDoc(r *gen.Rand, name string, text []byte, nd bool, edits int) *c11Doc {
	var model []*ref.Value
	if nd {
		lines, _ := ref.SplitLines(text)
		for _, ln := range lines {
			a := ref.Analyze(ln)
			if a.Class != ref.MustAccept {
				return nil
			}
			model = append(model, a.Value)
		}
		if len(model) == 0 {
			return nil
		}
	} else {
		a := ref.Analyze(text)
		if a.Class != ref.MustAccept {
			return nil
		}
		model = []*ref.Value{a.Value}
	}
	cfg := w.configs()[r.Intn(len(w.configs()))]
	p, err, pan := w.parseGuarded(text, cfg, nd, false)
	if err != nil || pan != nil {
		w.Count("valid_doc_rejected_by_parse_(C01)", 1)
		return nil
	}
	pj := p.Clone(nil)
	if !cfg.Copy {
		w.Count("source_tapes_nocopy_mode", 1)
	}
	for e := 0; e < edits; e++ {
		locs := allLocs(model, 600)
		l := locs[r.Intn(len(locs))]
		cur := modelAt(model, l)
		if (cur.K == ref.Array || cur.K == ref.Object) && len(cur.A)+len(cur.Vals) > 0 && r.Chance(2, 3) {
			var bad string
			perr := walk.Guard(func() error {
				bad = doDelete(pj, model, delOp{L: l, Mask: r.Uint64() | 1})
				return nil
			})
			if perr != nil || bad != "" {
				return nil
			}
			w.Count("source_tapes_with_deletions", 1)
			continue
		}
		if len(l.Path) == 0 {
			continue
		}
		if bad, _ := doSet(pj, model, l, randSetOp(r), routeInto); bad != "" {
			return nil
		}
	}
	return &c11Doc{name: name, pj: pj, model: model, dump: dumpRoots(model)}
}

// c11DeletedRunAt: [true x n, victim, true x 300] with the victim deleted through Array.DeleteElems.
// Every entry before the victim is one tag, so the victim's first entry is tag n+2 of the stream.
func (w *W) c11DeletedRunAt(r *gen.Rand, k int) *c11Doc {
	victim, span := "["+strings.Repeat("7,", 99)+"7]", 202
	if k%12 == 7 {
		victim, span = "12345", 2
	}
	first := 65536 - r.Intn(span+1) // tag index of the first deleted entry: the run covers [first, first+span)
	n := first - 2
	text := []byte("[" + strings.Repeat("true,", n) + victim + strings.Repeat(",true", 300) + "]")
	a := ref.Analyze(text)
	if a.Class != ref.MustAccept {
		return nil
	}
	p, err, pan := w.parseGuarded(text, w.configs()[r.Intn(len(w.configs()))], false, false)
	if err != nil || pan != nil {
		return nil
	}
	pj := p.Clone(nil)
	perr := walk.Guard(func() error {
		it, err := locateInto(pj, Loc{})
		if err != nil {
			return err
		}
		arr, err := it.Array(nil)
		if err != nil {
			return err
		}
		i := 0
		arr.DeleteElems(func(simdjson.Iter) bool { i++; return i-1 == n })
		return nil
	})
	if perr != nil {
		return nil
	}
	model := []*ref.Value{a.Value}
	modelDelete(model[0], map[int]bool{n: true})
	w.Count("source_tapes_with_deletions", 1)
	w.Count("source_tapes_with_a_deleted_run_at_the_64Ki_tag_boundary", 1)
	return &c11Doc{name: fmt.Sprintf("deleted-run-at-tag-%d+%d", first, span), pj: pj, model: model, dump: dumpRoots(model)}
}

// c11Docs builds the pool of source tapes for one program.
func (w *W) c11Docs(r *gen.Rand, k int) []*c11Doc {
	var out []*c11Doc
	add := func(d *c11Doc) {
		if d != nil {
			out = append(out, d)
		}
	}
	add(w.c11MakeDoc(r, "small", gen.Doc(r.Split(), gen.DocCfg{Size: 60 + r.Intn(400), MaxDepth: 4, MaxFan: 6, Esc: 30, DupKeys: true}), false, 0))
	add(w.c11MakeDoc(r, "edited", gen.Doc(r.Split(), gen.DocCfg{Size: 200 + r.Intn(2000), MaxDepth: 4, MaxFan: 6, Esc: 30, DupKeys: true}), false, 1+r.Intn(5)))
	add(w.c11MakeDoc(r, "no-strings", []byte(`[1,2.5,true,null,[[],{}],-7,18446744073709551615,123456789012345678901234567890]`), false, 0))
	add(w.c11MakeDoc(r, "one-string", []byte(`["only"]`), false, 0))
	// nesting beyond every pre-sized scope stack (100, 128): the parser has no depth limit, so the
	// serializer cannot have one either
	add(w.c11MakeDoc(r, "deep", gen.Nest([]int{127, 128, 129, 130, 200, 1000}[k%6], k%3, `["x",1.5]`), false, 0))
	add(w.c11MakeDoc(r, "flags", []byte(`{"a":99999999999999999999,"b":-99999999999999999999,"c":1e5,"d":[100000000000000000000,1.0]}`), false, 0))
	var nd bytes.Buffer
	for i := 0; i < 2+r.Intn(20); i++ {
		nd.Write(gen.Doc(r.Split(), gen.DocCfg{Size: 30 + r.Intn(200), MaxDepth: 3, MaxFan: 4, Esc: 20, NoLF: true, DupKeys: true}))
		nd.WriteByte('\n')
	}
	ndDoc := w.c11MakeDoc(r, "ndjson", nd.Bytes(), true, r.Intn(3))
	add(ndDoc)
	if len(out) > 0 && r.Bool() {
		add(c11RootNulled(out[0]))
	} else {
		add(c11RootNulled(ndDoc))
	}
	switch k % 12 {
	case 0:
		// > 16384 distinct equal-length strings: pigeonhole collisions in the 16 Ki-entry string table
		var b bytes.Buffer
		b.WriteByte('[')
		n := 20000 + r.Intn(15000)
		for i := 0; i < n; i++ {
			if i > 0 {
				b.WriteByte(',')
			}
			fmt.Fprintf(&b, `"%06x"`, i*7919+k)
		}
		b.WriteByte(']')
		add(w.c11MakeDoc(r, "many-equal-length-strings", b.Bytes(), false, 0))
	case 1:
		// many duplicates
		var b bytes.Buffer
		b.WriteByte('[')
		for i := 0; i < 30000; i++ {
			if i > 0 {
				b.WriteByte(',')
			}
			fmt.Fprintf(&b, `{"k%d":"v%d"}`, i%7, i%13)
		}
		b.WriteByte(']')
		add(w.c11MakeDoc(r, "duplicate-strings", b.Bytes(), false, 0))
	case 2:
		// > 64 Ki tags and > 64 KiB of values (block flush paths), boundaries +-
		n := 64<<10 + r.Intn(5) - 2
		add(w.c11MakeDoc(r, "tags-64k", []byte("["+strings.Repeat("true,", n-3)+"true]"), false, 0))
		add(w.c11MakeDoc(r, "values-64k", []byte("["+strings.Repeat("1,", (64<<10)/8+r.Intn(5)-2)+"1]"), false, 0))
	case 6, 7:
		// a deleted run (a nested array of 100 numbers: 202 deleted entries; or one number: 2) that
		// straddles the serializer's 65536-tag block boundary at a seeded position, or starts/ends on it
		add(w.c11DeletedRunAt(r, k))
	case 3:
		add(w.c11MakeDoc(r, "big", gen.Doc(r.Split(), gen.DocCfg{Size: 300 << 10, MaxDepth: 6, MaxFan: 12, WS: 1, Esc: 20, LongStr: 10, DupKeys: true}), false, r.Intn(4)))
	case 4:
		add(w.c11MakeDoc(r, "long-strings", []byte(`["`+strings.Repeat("x", 70000)+`","`+strings.Repeat("y", 131072)+`",""]`), false, 0))
	case 5:
		for _, d := range gen.Corpus(300 << 10) {
			if r.Chance(1, 4) {
				add(w.c11MakeDoc(r, "corpus:"+d.Name, d.Data, false, r.Intn(3)))
			}
		}
	}
	return out
}

// c11Kept is a blob the caller holds on to while the Serializers go on working.
type c11Kept struct {
	blob, copy []byte
	d          *c11Doc
	step       int
}

func c11Compare(out *simdjson.ParsedJson, d *c11Doc) string {
	if d.raw {
		if a, b := c11RawView(d.pj), c11RawView(out); a != b {
			return fmt.Sprintf("tape kinds | marshalled text: %.300q, source has %.300q", b, a)
		}
		return ""
	}
	got, err := walk.Into(out)
	if diff := cmpRoots(d.model, got, err, false); diff != "" {
		return diff
	}
	// and through the Advance route, whose recycled Object/Array destinations have just been
	// used on documents with another string layout (parsed: Strings.B, deserialized: Message)
	got, err = walk.Adv(out)
	if diff := cmpRoots(d.model, got, err, false); diff != "" {
		return "Advance route: " + diff
	}
	return ""
}

// c11Program: a seeded history over two serializers and a pool of destinations.
func (w *W) c11Program(k int, emit func(blob, dump []byte)) {
	hseed := int64(w.Out.Seed)*5000011 + int64(k)
	cs := &ev.Case{Gen: "c11-program", A: hseed, B: int64(k)}
	w.Journal(cs)
	if w.Skip() {
		return
	}
	r := gen.New(uint64(hseed), "c11")
	docs := w.c11Docs(r, k)
	if len(docs) == 0 {
		return
	}
	S := []*simdjson.Serializer{simdjson.NewSerializer(), simdjson.NewSerializer()}
	if k%3 == 0 {
		S[1] = S[0]
	}
	if k%2 == 0 {
		S[0].CompressMode(simdjson.CompressFast) // sticky fast flag before other modes
	}
	if k%4 >= 2 {
		// the first thing a fresh Serializer does is Deserialize (blob made by a throw-away one)
		d := docs[r.Intn(len(docs))]
		tmp := simdjson.NewSerializer()
		tmp.CompressMode(compModes[r.Intn(4)])
		blob := tmp.Serialize(nil, *d.pj)
		for _, x := range S {
			out, err := x.Deserialize(blob, nil)
			w.Eval(1)
			if err != nil {
				w.Violation("C11/Deserialize-error/first-call", fmt.Sprintf("a fresh Serializer fails on a valid blob: %v", err), cs)
				return
			}
			if diff := c11Compare(out, d); diff != "" {
				w.Violation("C11/different-document/first-call", "a fresh Serializer's first Deserialize gives a different document: "+diff, cs)
				return
			}
		}
	}
	dsts := []*simdjson.ParsedJson{nil, {}, {}}
	if k%2 == 1 {
		// a destination that is a parsed document (copy mode: non-empty Strings.B, a Message, a tape)
		if p, err := simdjson.Parse([]byte(`{"parsed":"destination","with":["some","strings",1,2.5]}`), nil); err == nil {
			dsts = append(dsts, p.Clone(nil))
		}
	}
	var trace []string
	var kept []c11Kept
	steps := 6 + r.Intn(10)
	nontrivial := false
	for s := 0; s < steps; s++ {
		d := docs[r.Intn(len(docs))]
		em := compModes[r.Intn(4)]
		dm := compModes[r.Intn(4)]
		A := S[r.Intn(2)]
		B := S[r.Intn(2)]
		A.CompressMode(em)
		var blob []byte
		var pre []byte
		if r.Chance(1, 3) {
			pre = []byte("prefix-bytes")
		}
		perr := walk.Guard(func() error {
			blob = A.Serialize(append([]byte{}, pre...), *d.pj)
			return nil
		})
		trace = append(trace, fmt.Sprintf("ser(%s,mode%d)", d.name, em))
		w.Eval(1)
		if perr != nil {
			w.Violation(fmt.Sprintf("C11/Serialize-panic/%s/enc-mode%d", genClass(d.name), em), fmt.Sprintf("Serialize panicked: %v; history=%v", perr, lastN(trace, 6)), cs)
			return
		}
		if !bytes.HasPrefix(blob, pre) {
			w.Violation("C11/Serialize-dst-not-appended", fmt.Sprintf("Serialize did not append to dst; history=%v", lastN(trace, 6)), cs)
			return
		}
		blob = blob[len(pre):]
		if emit != nil {
			if !d.raw {
				emit(blob, d.dump)
			}
		}
		// occasionally a corrupt blob in between (failure history on B and the destination)
		var damagedAfter []byte
		di := r.Intn(len(dsts))
		if r.Chance(1, 5) && len(blob) > 12 {
			bad := append([]byte{}, blob[:len(blob)/2]...)
			switch r.Intn(3) {
			case 0:
				// a late error: everything but the last bytes is intact
				bad = append([]byte{}, blob[:len(blob)-1-r.Intn(8)]...)
			case 1:
				// framing intact, payload damaged: the failure comes from inside a block decoder
				// (s2/zstd), not from the header checks
				bad = append([]byte{}, blob...)
				for k := 0; k < 3; k++ {
					bad[len(bad)/3+r.Intn(len(bad)-len(bad)/3)] ^= byte(1 + r.Intn(255))
				}
			}
			if !damageAllocatable(blob, bad) {
				// the damage hit a size varint or a zstd frame header: the call would allocate what
				// the header now declares (outside the statement, as in C19)
				w.Count("damaged_blobs_declaring_huge_sizes_skipped", 1)
			} else if r.Bool() {
				walk.Guard(func() error { B.Deserialize(bad, dsts[di]); return nil })
				trace = append(trace, "deser(damaged)")
			} else {
				// after this step's valid blob: the failure is then the last thing this Serializer
				// did before the next step's blob, which may be of any mode
				damagedAfter = bad
			}
		}
		B.CompressMode(dm)
		var out *simdjson.ParsedJson
		var derr error
		perr = walk.Guard(func() error {
			out, derr = B.Deserialize(blob, dsts[di])
			return nil
		})
		trace = append(trace, fmt.Sprintf("deser(dst%d,mode%d)", di, dm))
		w.Eval(1)
		key := fmt.Sprintf("%s/enc-mode%d/dec-mode%d", genClass(d.name), em, dm)
		if perr != nil {
			w.Violation("C11/Deserialize-panic/"+key, fmt.Sprintf("Deserialize panicked on a blob the library produced: %v; history=%v", perr, lastN(trace, 8)), cs)
			return
		}
		if derr != nil {
			w.Violation("C11/Deserialize-error/"+key, fmt.Sprintf("Deserialize failed on a blob the library produced: %v; history=%v", derr, lastN(trace, 8)), cs)
			return
		}
		if di != 0 {
			dsts[di] = out
		}
		if diff := c11Compare(out, d); diff != "" {
			// attribute: same blob with fresh objects
			fresh, ferr := simdjson.NewSerializer().Deserialize(blob, nil)
			attr := "also with fresh objects"
			if ferr == nil && c11Compare(fresh, d) == "" {
				attr = "only with the reused serializer/destination"
			}
			w.Violation("C11/different-document/"+key, fmt.Sprintf("round trip gives a different document (%s): %s; history=%v", attr, diff, lastN(trace, 8)), cs)
			return
		}
		// blobs are the caller's bytes: whatever the two Serializers do later, a blob that was kept
		// stays byte for byte what Serialize returned, and reads back as the same document
		for ki := range kept {
			if !bytes.Equal(kept[ki].blob, kept[ki].copy) {
				w.Violation("C11/library-wrote-into-a-kept-blob", fmt.Sprintf("a serialized blob the caller kept (made %d steps ago from %s) was modified by later Serialize/Deserialize calls (first difference at byte %d of %d); history=%v", s-kept[ki].step, kept[ki].d.name, firstDiff(kept[ki].blob, kept[ki].copy), len(kept[ki].copy), lastN(trace, 8)), cs)
				return
			}
		}
		if len(kept) > 0 && r.Chance(1, 3) {
			kb := kept[r.Intn(len(kept))]
			var kout *simdjson.ParsedJson
			var kerr error
			perr := walk.Guard(func() error { kout, kerr = B.Deserialize(kb.blob, nil); return nil })
			trace = append(trace, fmt.Sprintf("deser(kept blob of %s from step %d)", kb.d.name, kb.step))
			w.Eval(1)
			if perr != nil || kerr != nil {
				w.Violation("C11/kept-blob-no-longer-deserializes", fmt.Sprintf("a blob kept from an earlier step fails now: %v %v; history=%v", perr, kerr, lastN(trace, 8)), cs)
				return
			}
			if diff := c11Compare(kout, kb.d); diff != "" {
				w.Violation("C11/kept-blob-different-document", fmt.Sprintf("a blob kept from an earlier step reads back as a different document now: %s; history=%v", diff, lastN(trace, 8)), cs)
				return
			}
			w.Count("kept_blobs_read_again_later", 1)
		}
		if len(blob) <= 1<<20 && r.Chance(1, 2) {
			e := c11Kept{blob: blob, copy: append([]byte{}, blob...), d: d, step: s}
			if len(kept) < 4 {
				kept = append(kept, e)
			} else {
				kept[r.Intn(4)] = e
			}
		}
		// second generation: what Deserialize left in the (recycled) destination goes through
		// Serialize again; whole-tape consumers see every entry, also those inside deleted runs
		if r.Chance(1, 3) {
			var again *simdjson.ParsedJson
			var aerr error
			perr := walk.Guard(func() error {
				fs := simdjson.NewSerializer()
				again, aerr = fs.Deserialize(fs.Serialize(nil, *out), nil)
				return nil
			})
			diff := ""
			if perr == nil && aerr == nil {
				diff = c11Compare(again, d)
			}
			if perr != nil || aerr != nil || diff != "" {
				w.Violation("C11/second-generation/"+key, fmt.Sprintf("serializing a deserialized document again fails or gives a different document: %v %v %s; history=%v", perr, aerr, diff, lastN(trace, 8)), cs)
				return
			}
			w.Count("second_generation_round_trips", 1)
		}
		if damagedAfter != nil {
			walk.Guard(func() error { B.Deserialize(damagedAfter, nil); return nil })
			trace = append(trace, "deser(damaged)")
			damagedAfter = nil
		}
		w.Count(fmt.Sprintf("pair_enc%d_dec%d", em, dm), 1)
		w.SetAdd("documents", genClass(d.name))
		if bytes.ContainsAny(d.dump, "s") && bytes.ContainsAny(d.dump, "iud") {
			nontrivial = true
		}
	}
	if nontrivial {
		w.Nontrivial(uint64(hseed))
	}
	w.Count("programs", 1)
	if w.WantSample() {
		w.Sample(map[string]interface{}{"program": k, "history": lastN(trace, 10)})
	}
}

// c11StaleSuffix: one Serializer serializes [B] and then [P,B] where P is a
// prefix of B: P lands at the offset B had in the previous call, so the bytes
// after it in the (reused) string table's spare capacity are B's tail. A
// de-duplication lookup that compares beyond the table's length then "finds"
// B. It needs P and B to share one of the 16384 hash buckets, so many pairs.
func (w *W) c11StaleSuffix(pairs int) {
	ser := simdjson.NewSerializer()
	ser.CompressMode(simdjson.CompressNone)
	r := w.rng("stale", w.Out.Shard)
	var reuse *simdjson.ParsedJson
	for i := 0; i < pairs; i++ {
		p := fmt.Sprintf("p%x", r.Uint64())
		b := p + fmt.Sprintf("-suffix-%x", r.Uint64()>>40)
		if i%3 == 0 {
			b = p + "\u0000\u0000\u0000"
		}
		d1 := []byte(`["` + b + `"]`)
		d2 := []byte(`["` + p + `","` + b + `","` + p + `x"]`)
		cs := &ev.Case{Gen: "c11-stale-suffix", Input: d2}
		w.Journal(cs)
		for _, doc := range [][]byte{d1, d2} {
			a := ref.Analyze(doc)
			pj, err := simdjson.Parse(doc, reuse)
			if err != nil || a.Class != ref.MustAccept {
				w.Count("valid_doc_rejected_by_parse_(C01)", 1)
				continue
			}
			reuse = pj
			blob := ser.Serialize(nil, *pj)
			out, err := ser.Deserialize(blob, nil)
			w.Eval(1)
			if err != nil {
				w.Violation("C11/Deserialize-error/stale-suffix", fmt.Sprintf("round trip failed: %v; doc=%s after %s", err, q(doc), q(d1)), cs)
				return
			}
			got, werr := walk.Into(out)
			if d := cmpRoots([]*ref.Value{a.Value}, got, werr, false); d != "" {
				w.Violation("C11/different-document/stale-suffix", fmt.Sprintf("round trip on a reused Serializer gives a different document: %s; doc=%s serialized right after %s", d, q(doc), q(d1)), cs)
				return
			}
		}
		w.Nontrivial(gen.Hash64(d2))
	}
	w.Count("stale_suffix_pairs", pairs)
}

func runC11(w *W) {
	n := 600
	if w.thorough() {
		n = 30000
	}
	if w.Out.Variant == "race" {
		n /= 6
	}
	switch w.Out.Mode {
	case "emit":
		// write blobs and the canonical dumps of the expected documents for the noasm consumer
		dir := filepath.Join(filepath.Dir(w.OutPath), "c11-blobs")
		os.MkdirAll(dir, 0o755)
		f, err := os.Create(filepath.Join(dir, fmt.Sprintf("shard%d.bin", w.Out.Shard)))
		if err != nil {
			w.Inconclusive("cannot write blob file: " + err.Error())
			return
		}
		defer f.Close()
		count, size := 0, 0
		emit := func(blob, dump []byte) {
			if size > 96<<20 || len(blob) > 8<<20 {
				return
			}
			var h [8]byte
			binary.LittleEndian.PutUint32(h[:4], uint32(len(blob)))
			binary.LittleEndian.PutUint32(h[4:], uint32(len(dump)))
			f.Write(h[:])
			f.Write(blob)
			f.Write(dump)
			count++
			size += len(blob) + len(dump)
		}
		for k := 0; k < n/4; k++ {
			if w.mine(k) {
				w.c11Program(k, emit)
			}
		}
		w.Count("blobs_emitted_for_noasm", count)
	case "consume":
		dir := filepath.Join(filepath.Dir(w.OutPath), "c11-blobs")
		files, _ := filepath.Glob(filepath.Join(dir, "shard*.bin"))
		if simdjson.SupportedCPU() {
			w.Inconclusive("consumer is not a noasm build")
			return
		}
		idx := 0
		for _, fn := range files {
			raw, err := os.ReadFile(fn)
			if err != nil {
				continue
			}
			for len(raw) >= 8 {
				bl := int(binary.LittleEndian.Uint32(raw[:4]))
				dl := int(binary.LittleEndian.Uint32(raw[4:8]))
				if len(raw) < 8+bl+dl {
					break
				}
				blob, dump := raw[8:8+bl], raw[8+bl:8+bl+dl]
				raw = raw[8+bl+dl:]
				idx++
				if !w.mine(idx) {
					continue
				}
				cs := &ev.Case{Gen: "c11-noasm", Input: blob, Text: filepath.Base(fn)}
				w.Journal(cs)
				var out *simdjson.ParsedJson
				var derr error
				perr := walk.Guard(func() error {
					out, derr = simdjson.NewSerializer().Deserialize(blob, nil)
					return nil
				})
				w.Eval(1)
				if perr != nil || derr != nil {
					w.Violation("C11/noasm/Deserialize-failed", fmt.Sprintf("the noasm build cannot deserialize a blob written by the asm build: %v %v", perr, derr), cs)
					continue
				}
				got, err := walk.Into(out)
				if err != nil {
					w.Violation("C11/noasm/traverse", fmt.Sprintf("walking the deserialized tape in the noasm build: %v", err), cs)
					continue
				}
				if gd := dumpRoots(got); !bytes.Equal(gd, dump) {
					w.Violation("C11/noasm/different-document", fmt.Sprintf("the noasm build exposes a different document for the same blob: got %s want %s", q(gd), q(dump)), cs)
					continue
				}
				w.Count("blobs_verified_in_noasm_build", 1)
				w.Nontrivial(gen.Hash64(blob))
			}
		}
	default:
		for k := 0; k < n; k++ {
			if w.mine(k) {
				w.c11Program(k, nil)
			}
		}
		if w.Out.Variant != "race" {
			pairs := 12000
			if w.thorough() {
				pairs = 150000
			}
			w.c11StaleSuffix(pairs)
		}
	}
}

func replayC11(w *W, cs *ev.Case) {
	if cs.Gen == "c11-noasm" {
		fmt.Println("replay of noasm cases: run the consume mode on the blob in the case input with a noasm worker")
		return
	}
	w.Out.NShards = 1
	w.Out.Seed = uint64((cs.A - cs.B) / 5000011)
	w.c11Program(int(cs.B), nil)
}
