package main

import (
	"errors"
	"fmt"

	simdjson "github.com/minio/simdjson-go"

	"verifharness/ref"
)

// Loc addresses a value: root number and child indices from the root value.
type Loc struct {
	Root int
	Path []int
}

func (l Loc) String() string { return fmt.Sprintf("r%d%v", l.Root, l.Path) }

// modelAt returns the value at loc in the model.
func modelAt(roots []*ref.Value, l Loc) *ref.Value {
	v := roots[l.Root]
	for _, i := range l.Path {
		if v.K == ref.Array {
			v = v.A[i]
		} else {
			v = v.Vals[i]
		}
	}
	return v
}

// allLocs lists every value position (pre-order), iteratively.
func allLocs(roots []*ref.Value, maxN int) []Loc {
	var out []Loc
	type fr struct {
		v    *ref.Value
		path []int
	}
	for ri, r := range roots {
		stack := []fr{{r, nil}}
		for len(stack) > 0 && len(out) < maxN {
			f := stack[len(stack)-1]
			stack = stack[:len(stack)-1]
			out = append(out, Loc{ri, f.path})
			kids := f.v.A
			if f.v.K == ref.Object {
				kids = f.v.Vals
			}
			for i := len(kids) - 1; i >= 0; i-- {
				p := append(append([]int{}, f.path...), i)
				stack = append(stack, fr{kids[i], p})
			}
		}
	}
	return out
}

const (
	routeInto = iota
	routeAdv
	routeIter
	routeFind
	routeElems
	nRoutes
)

var routeNames = []string{"AdvanceInto-scan", "Advance/NextElementBytes", "AdvanceIter/ForEach", "FindKey/FindPath", "Object.Parse/Elements"}

// locateElems parses the object that holds l into Elements (before the edit) and returns them
// with the index of l's member: the edit then goes through the stored Element's iterator and
// the same Elements are marshalled afterwards. ok=false when l's parent is not an object.
func locateElems(pj *simdjson.ParsedJson, roots []*ref.Value, l Loc) (els *simdjson.Elements, idx int, parent Loc, ok bool, err error) {
	p, i, has := parentOf(l)
	if !has || modelAt(roots, p).K != ref.Object {
		return nil, 0, p, false, nil
	}
	pit, err := locateInto(pj, p)
	if err != nil {
		return nil, 0, p, true, err
	}
	o, err := pit.Object(nil)
	if err != nil {
		return nil, 0, p, true, err
	}
	els, err = o.Parse(nil)
	if err != nil {
		return nil, 0, p, true, err
	}
	if i >= len(els.Elements) {
		return nil, 0, p, true, fmt.Errorf("Object.Parse yields %d members, the model has more than %d", len(els.Elements), i)
	}
	return els, i, p, true, nil
}

// locate returns an iterator positioned on the value at loc, obtained through
// the chosen public route. The model is needed for key names (routeFind).
func locate(pj *simdjson.ParsedJson, roots []*ref.Value, l Loc, route int) (simdjson.Iter, error) {
	switch route {
	case routeInto:
		return locateInto(pj, l)
	case routeAdv:
		return locateAdv(pj, l, false, roots)
	case routeIter:
		return locateIter(pj, l)
	default:
		return locateAdv(pj, l, true, roots)
	}
}

// locateInto scans the tape with AdvanceInto, tracking the position.
func locateInto(pj *simdjson.ParsedJson, l Loc) (simdjson.Iter, error) {
	it := pj.Iter()
	type fr struct {
		obj     bool
		idx     int  // index of the next child
		wantKey bool // objects: next string is a key
	}
	var stack []fr
	root := -1
	inRoot := false
	matches := func() bool {
		// the value about to be consumed is child stack[k].idx of each frame
		if root != l.Root || len(stack) != len(l.Path) {
			return false
		}
		for k, f := range stack {
			if f.idx != l.Path[k] {
				return false
			}
		}
		return true
	}
	for steps := 0; steps <= len(pj.Tape)+2; steps++ {
		tag := it.AdvanceInto()
		switch tag {
		case simdjson.TagEnd:
			return it, errors.New("locateInto: position not found")
		case simdjson.TagRoot:
			if inRoot {
				inRoot = false
				stack = stack[:0]
			} else {
				inRoot = true
				root++
			}
			continue
		case simdjson.TagObjectEnd, simdjson.TagArrayEnd:
			if len(stack) == 0 {
				return it, errors.New("locateInto: unbalanced")
			}
			stack = stack[:len(stack)-1]
			if len(stack) > 0 {
				stack[len(stack)-1].idx++
				if stack[len(stack)-1].obj {
					stack[len(stack)-1].wantKey = true
				}
			}
			continue
		}
		if len(stack) > 0 && stack[len(stack)-1].obj && stack[len(stack)-1].wantKey {
			if tag != simdjson.TagString {
				return it, fmt.Errorf("locateInto: expected key, got %q", byte(tag))
			}
			stack[len(stack)-1].wantKey = false
			continue
		}
		// a value starts here
		if matches() {
			return it, nil
		}
		switch tag {
		case simdjson.TagObjectStart:
			stack = append(stack, fr{obj: true, wantKey: true})
		case simdjson.TagArrayStart:
			stack = append(stack, fr{})
		default:
			if len(stack) > 0 {
				stack[len(stack)-1].idx++
				if stack[len(stack)-1].obj {
					stack[len(stack)-1].wantKey = true
				}
			}
		}
	}
	return it, errors.New("locateInto: step bound")
}

// locateAdv navigates with Advance/Root/Array.Iter/NextElementBytes, or, with
// find set, with FindKey where the key's first occurrence is the wanted member.
func locateAdv(pj *simdjson.ParsedJson, l Loc, find bool, roots []*ref.Value) (simdjson.Iter, error) {
	it := pj.Iter()
	for r := 0; ; r++ {
		t := it.Advance()
		if t != simdjson.TypeRoot {
			return it, fmt.Errorf("locateAdv: top-level type %v", t)
		}
		if r == l.Root {
			break
		}
	}
	_, ri, err := it.Root(nil)
	if err != nil {
		return it, err
	}
	cur := *ri
	var mv *ref.Value
	if roots != nil {
		mv = roots[l.Root]
	}
	for _, idx := range l.Path {
		switch cur.Type() {
		case simdjson.TypeArray:
			a, err := cur.Array(nil)
			if err != nil {
				return cur, err
			}
			ai := a.Iter()
			for k := 0; k <= idx; k++ {
				if ai.Advance() == simdjson.TypeNone {
					return cur, fmt.Errorf("locateAdv: array ended at %d, want %d", k, idx)
				}
			}
			cur = ai
			if mv != nil {
				mv = mv.A[idx]
			}
		case simdjson.TypeObject:
			o, err := cur.Object(nil)
			if err != nil {
				return cur, err
			}
			useFind := false
			if find && mv != nil {
				// first occurrence of this key?
				useFind = true
				for k := 0; k < idx; k++ {
					if string(mv.Keys[k]) == string(mv.Keys[idx]) {
						useFind = false
					}
				}
			}
			if useFind {
				e := o.FindKey(string(mv.Keys[idx]), nil)
				if e == nil {
					return cur, fmt.Errorf("locateAdv: FindKey(%q) = nil", mv.Keys[idx])
				}
				cur = e.Iter
			} else {
				var e simdjson.Iter
				for k := 0; k <= idx; k++ {
					_, t, err := o.NextElementBytes(&e)
					if err != nil {
						return cur, err
					}
					if t == simdjson.TypeNone {
						return cur, fmt.Errorf("locateAdv: object ended at %d, want %d", k, idx)
					}
				}
				cur = e
			}
			if mv != nil {
				mv = mv.Vals[idx]
			}
		default:
			return cur, fmt.Errorf("locateAdv: path enters %v", cur.Type())
		}
	}
	return cur, nil
}

// locateIter navigates with AdvanceIter (arrays) and Object.ForEach callbacks.
func locateIter(pj *simdjson.ParsedJson, l Loc) (simdjson.Iter, error) {
	it := pj.Iter()
	var cur simdjson.Iter
	for r := 0; ; r++ {
		t, err := it.AdvanceIter(&cur)
		if err != nil {
			return it, err
		}
		if t != simdjson.TypeRoot {
			return it, fmt.Errorf("locateIter: top-level type %v", t)
		}
		if r == l.Root {
			break
		}
	}
	cur.AdvanceInto()
	for _, idx := range l.Path {
		switch cur.Type() {
		case simdjson.TypeArray:
			a, err := cur.Array(nil)
			if err != nil {
				return cur, err
			}
			ai := a.Iter()
			var e simdjson.Iter
			for k := 0; k <= idx; k++ {
				t, err := ai.AdvanceIter(&e)
				if err != nil {
					return cur, err
				}
				if t == simdjson.TypeNone {
					return cur, fmt.Errorf("locateIter: array ended at %d, want %d", k, idx)
				}
			}
			cur = e
		case simdjson.TypeObject:
			o, err := cur.Object(nil)
			if err != nil {
				return cur, err
			}
			n := 0
			found := false
			var e simdjson.Iter
			err = o.ForEach(func(key []byte, i simdjson.Iter) {
				if n == idx {
					e = i
					found = true
				}
				n++
			}, nil)
			if err != nil {
				return cur, err
			}
			if !found {
				return cur, fmt.Errorf("locateIter: object had %d members, want index %d", n, idx)
			}
			cur = e
		default:
			return cur, fmt.Errorf("locateIter: path enters %v", cur.Type())
		}
	}
	return cur, nil
}

// parentOf returns the location of the container holding l and the index in it.
func parentOf(l Loc) (Loc, int, bool) {
	if len(l.Path) == 0 {
		return l, 0, false
	}
	return Loc{l.Root, l.Path[:len(l.Path)-1]}, l.Path[len(l.Path)-1], true
}

// modelDelete removes the children with the given indices from container c.
func modelDelete(c *ref.Value, del map[int]bool) {
	if c.K == ref.Array {
		var a []*ref.Value
		for i, e := range c.A {
			if !del[i] {
				a = append(a, e)
			}
		}
		c.A = a
		return
	}
	var ks [][]byte
	var vs []*ref.Value
	for i := range c.Keys {
		if !del[i] {
			ks = append(ks, c.Keys[i])
			vs = append(vs, c.Vals[i])
		}
	}
	c.Keys, c.Vals = ks, vs
}

// locateScoped navigates so that the final iterator's scope is exactly one
// value: AdvanceIter inside arrays, NextElementBytes (or FindKey when the key
// is the first of its name and find is set) inside objects.
func locateScoped(pj *simdjson.ParsedJson, l Loc, find bool, roots []*ref.Value) (simdjson.Iter, error) {
	it := pj.Iter()
	var cur simdjson.Iter
	for r := 0; ; r++ {
		t, err := it.AdvanceIter(&cur)
		if err != nil {
			return it, err
		}
		if t != simdjson.TypeRoot {
			return it, fmt.Errorf("locateScoped: top-level type %v", t)
		}
		if r == l.Root {
			break
		}
	}
	cur.AdvanceInto()
	mv := roots[l.Root]
	for _, idx := range l.Path {
		switch cur.Type() {
		case simdjson.TypeArray:
			a, err := cur.Array(nil)
			if err != nil {
				return cur, err
			}
			ai := a.Iter()
			var e simdjson.Iter
			for k := 0; k <= idx; k++ {
				t, err := ai.AdvanceIter(&e)
				if err != nil {
					return cur, err
				}
				if t == simdjson.TypeNone {
					return cur, fmt.Errorf("locateScoped: array ended at %d, want %d", k, idx)
				}
			}
			cur = e
			mv = mv.A[idx]
		case simdjson.TypeObject:
			o, err := cur.Object(nil)
			if err != nil {
				return cur, err
			}
			useFind := find
			for k := 0; k < idx && useFind; k++ {
				if string(mv.Keys[k]) == string(mv.Keys[idx]) {
					useFind = false
				}
			}
			if useFind {
				e := o.FindKey(string(mv.Keys[idx]), nil)
				if e == nil {
					return cur, fmt.Errorf("locateScoped: FindKey(%q) = nil", mv.Keys[idx])
				}
				cur = e.Iter
			} else {
				var e simdjson.Iter
				for k := 0; k <= idx; k++ {
					_, t, err := o.NextElementBytes(&e)
					if err != nil {
						return cur, err
					}
					if t == simdjson.TypeNone {
						return cur, fmt.Errorf("locateScoped: object ended at %d, want %d", k, idx)
					}
				}
				cur = e
			}
			mv = mv.Vals[idx]
		default:
			return cur, fmt.Errorf("locateScoped: path enters %v", cur.Type())
		}
	}
	return cur, nil
}
