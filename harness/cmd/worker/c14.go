package main

import (
	"bytes"
	"fmt"
	"strings"

	simdjson "github.com/minio/simdjson-go"

	"verifharness/ev"
	"verifharness/gen"
	"verifharness/ref"
	"verifharness/tapecheck"
	"verifharness/walk"
)

func init() { register("C14", runC14, replayC14) }

// delOp describes one deletion request on the container at L.
type delOp struct {
	L       Loc
	Mask    uint64 // members (by live index) for which deletion is requested
	Variant int    // 0 fn only, 1 onlyKeys only (objects), 2 both (objects), 3 SetNull on the container
}

func (d delOp) desc(c *ref.Value) string {
	n := len(c.A) + len(c.Vals)
	kind := "array"
	if c.K == ref.Object {
		kind = "object"
	}
	v := []string{"fn", "onlyKeys", "fn+onlyKeys", "SetNull"}[d.Variant]
	m := d.Mask & (1<<uint(n) - 1)
	if n > 16 {
		return fmt.Sprintf("%s-n=%d-%s", kind, n, v)
	}
	return fmt.Sprintf("%s-n=%d-mask=%0*b-%s", kind, n, n, m, v)
}

type cbRec struct {
	key  string
	typ  simdjson.Type
	val  *ref.Value
	verr error
}

// scalarOnly reads the callback iterator's value when it is a scalar.
func cbValue(i simdjson.Iter) (*ref.Value, error) {
	t := i.Type()
	if t == simdjson.TypeArray || t == simdjson.TypeObject {
		return nil, nil
	}
	return walk.AdvValue(i)
}

// doDelete applies d to pj and to the model; returns a violation text or "".
func doDelete(pj *simdjson.ParsedJson, roots []*ref.Value, d delOp) (bad string) {
	c := modelAt(roots, d.L)
	n := len(c.A) + len(c.Vals)
	it, err := locateInto(pj, d.L)
	if err != nil {
		return fmt.Sprintf("locating container %v: %v", d.L, err)
	}
	if it.Type() != kindType(c) {
		return fmt.Sprintf("container %v has type %v, model %v", d.L, it.Type(), c.K)
	}
	del := map[int]bool{}
	for i := 0; i < n; i++ {
		if d.Mask>>uint(i%64)&1 == 1 {
			del[i] = true
		}
	}
	if d.Variant == 3 {
		if err := it.SetNull(); err != nil {
			return fmt.Sprintf("SetNull on a %v returned %v", c.K, err)
		}
		modelSet(roots, d.L, &ref.Value{K: ref.Null})
		return ""
	}
	var cbs []cbRec
	var wantVisit []int
	var sameHandle *simdjson.Object
	if c.K == ref.Array {
		a, err := it.Array(nil)
		if err != nil {
			return err.Error()
		}
		k := 0
		a.DeleteElems(func(i simdjson.Iter) bool {
			v, e := cbValue(i)
			cbs = append(cbs, cbRec{typ: i.Type(), val: v, verr: e})
			r := del[k]
			k++
			return r
		})
		for i := 0; i < n; i++ {
			wantVisit = append(wantVisit, i)
		}
	} else {
		o, err := it.Object(nil)
		if err != nil {
			return err.Error()
		}
		var only map[string]struct{}
		var fn func(key []byte, i simdjson.Iter) bool
		if d.Variant == 1 || d.Variant == 2 {
			only = map[string]struct{}{}
			for i := range c.Keys {
				if del[i] {
					only[string(c.Keys[i])] = struct{}{}
				}
			}
			if len(only) == 0 {
				// an empty filter means "no filter": make it select nothing real
				only["\x00none"] = struct{}{}
			}
		}
		visitIdx := 0
		for i := range c.Keys {
			if only == nil {
				wantVisit = append(wantVisit, i)
			} else if _, ok := only[string(c.Keys[i])]; ok {
				wantVisit = append(wantVisit, i)
			}
		}
		if d.Variant == 2 {
			// with both: the callback decides among the filtered members: delete every second visited
			nd := map[int]bool{}
			for j, i := range wantVisit {
				if j%2 == 0 {
					nd[i] = true
				}
			}
			del = nd
		}
		if d.Variant != 1 {
			fn = func(key []byte, i simdjson.Iter) bool {
				v, e := cbValue(i)
				cbs = append(cbs, cbRec{key: string(key), typ: i.Type(), val: v, verr: e})
				r := false
				if visitIdx < len(wantVisit) {
					r = del[wantVisit[visitIdx]]
				}
				visitIdx++
				return r
			}
		}
		if err := o.DeleteElems(fn, only); err != nil {
			return fmt.Sprintf("Object.DeleteElems returned %v", err)
		}
		sameHandle = o
	}
	// callback monitor: each (filtered) member once, in order, with its own key and value
	if c.K == ref.Array || d.Variant != 1 {
		if len(cbs) != len(wantVisit) {
			return fmt.Sprintf("DeleteElems called back %d members, want %d", len(cbs), len(wantVisit))
		}
		for j, i := range wantVisit {
			var mv *ref.Value
			if c.K == ref.Array {
				mv = c.A[i]
			} else {
				mv = c.Vals[i]
				if cbs[j].key != string(c.Keys[i]) {
					return fmt.Sprintf("DeleteElems callback %d has key %q, want %q", j, cbs[j].key, c.Keys[i])
				}
			}
			if cbs[j].typ != kindType(mv) {
				return fmt.Sprintf("DeleteElems callback %d has type %v, member is %v", j, cbs[j].typ, mv.K)
			}
			if cbs[j].verr != nil {
				return fmt.Sprintf("DeleteElems callback %d: reading the value: %v", j, cbs[j].verr)
			}
			if cbs[j].val != nil && ref.Diff(mv, cbs[j].val) != "" {
				return fmt.Sprintf("DeleteElems callback %d carries another member's value: %s", j, ref.Diff(mv, cbs[j].val))
			}
		}
	}
	modelDelete(c, del)
	if sameHandle != nil {
		// the Object handle that did the deletion is still a handle on the whole object
		var keys []string
		if err := sameHandle.ForEach(func(key []byte, i simdjson.Iter) { keys = append(keys, string(key)) }, nil); err != nil {
			return fmt.Sprintf("ForEach on the Object handle used for DeleteElems returned %v", err)
		}
		if len(keys) != len(c.Keys) {
			return fmt.Sprintf("the Object handle used for DeleteElems now exposes %d members %q, the object has %d", len(keys), keys, len(c.Keys))
		}
		for i := range keys {
			if keys[i] != string(c.Keys[i]) {
				return fmt.Sprintf("the Object handle used for DeleteElems exposes member %d as %q, want %q", i, keys[i], c.Keys[i])
			}
		}
		if len(c.Keys) > 0 {
			k := c.Keys[0]
			if e := sameHandle.FindKey(string(k), nil); e == nil {
				return fmt.Sprintf("FindKey(%q) on the Object handle used for DeleteElems = nil, the member survives", k)
			}
		}
	}
	return ""
}

func uniqueKeys(o *ref.Value) bool {
	seen := map[string]bool{}
	for _, k := range o.Keys {
		if seen[string(k)] {
			return false
		}
		seen[string(k)] = true
	}
	return true
}

// c14After checks all readers and the tape after an operation.
func (w *W) c14After(pj *simdjson.ParsedJson, roots []*ref.Value, opdesc string, detail string, cs *ev.Case, serialize bool) bool {
	ms, used := readerMatrix(pj, roots, readerOpts{Serialize: serialize, Lookups: true})
	w.Eval(used)
	for _, m := range ms {
		w.Violation("C14/reader="+nosp(m.Reader)+"/after-"+opdesc, fmt.Sprintf("%s disagrees with the model after %s: %s; %s", m.Reader, opdesc, m.Diff, detail), cs)
	}
	if _, err := tapecheck.Check(pj, tapecheck.Options{AllowNop: true}); err != nil {
		w.Violation("C14/tape-format/after-"+opdesc, fmt.Sprintf("tape violates the documented format after %s: %v; %s", opdesc, err, detail), cs)
		return false
	}
	return len(ms) == 0
}

// c14Enumerate: every container of <= 6 members x every subset x variants, each on a fresh clone.
func (w *W) c14Enumerate(st *histState, g string, doc []byte) {
	st.idx++
	if !w.mine(st.idx) {
		return
	}
	cs := &ev.Case{Gen: g, Input: doc, A: -1}
	w.Journal(cs)
	if w.Skip() {
		return
	}
	a := ref.Analyze(doc)
	if a.Class != ref.MustAccept || a.Info.MaxDepth > 200 {
		return
	}
	st.n++
	cfg := w.configs()[st.n%len(w.configs())]
	base, err, _ := w.parseGuarded(doc, cfg, false, false)
	if err != nil {
		return
	}
	base = base.Clone(nil)
	locs := allLocs([]*ref.Value{a.Value}, 300)
	containers := 0
	for _, l := range locs {
		c := modelAt([]*ref.Value{a.Value}, l)
		n := len(c.A) + len(c.Vals)
		if (c.K != ref.Array && c.K != ref.Object) || n > 6 || containers >= 6 {
			continue
		}
		containers++
		variants := []int{0, 3}
		if c.K == ref.Object && uniqueKeys(c) {
			variants = []int{0, 1, 2, 3}
		}
		for _, v := range variants {
			for mask := uint64(0); mask < 1<<uint(n); mask++ {
				if v == 3 && mask != 0 {
					break
				}
				pj := base.Clone(nil)
				roots := []*ref.Value{ref.Clone(a.Value)}
				d := delOp{L: l, Mask: mask, Variant: v}
				opdesc := d.desc(c)
				var bad string
				perr := walk.Guard(func() error {
					bad = doDelete(pj, roots, d)
					return nil
				})
				w.Eval(1)
				detail := fmt.Sprintf("container %v of doc=%s", l, q(doc))
				if perr != nil {
					bad = "panic: " + perr.Error()
				}
				if bad != "" {
					w.Violation("C14/DeleteElems/"+opdesc, bad+"; "+detail, cs)
					continue
				}
				w.c14After(pj, roots, opdesc, detail, cs, mask%4 == 1 || v == 3)
				w.Count("enumerated_deletions", 1)
				w.Nontrivial(gen.Hash64(doc, []byte(fmt.Sprint(l, mask, v))))
			}
		}
	}
}

// c14History: a seeded sequence of deletions and replacements (depth <= 4).
func (w *W) c14History(st *histState, g string, doc []byte, hseed int64, depth int) {
	st.idx++
	if !w.mine(st.idx) {
		return
	}
	cs := &ev.Case{Gen: g, Input: doc, A: hseed, B: int64(depth)}
	w.Journal(cs)
	if w.Skip() {
		return
	}
	a := ref.Analyze(doc)
	if a.Class != ref.MustAccept || a.Info.MaxDepth > 200 {
		return
	}
	st.n++
	r := gen.New(uint64(hseed), "c14hist")
	cfg := w.configs()[r.Intn(len(w.configs()))]
	p, err, _ := w.parseGuarded(doc, cfg, false, false)
	if err != nil {
		return
	}
	pj := p.Clone(nil)
	roots := []*ref.Value{ref.Clone(a.Value)}
	var trace []string
	effective := 0
	for step := 0; step < depth; step++ {
		locs := allLocs(roots, 1500)
		if r.Chance(1, 4) {
			// a replacement in between
			l := locs[r.Intn(len(locs))]
			if len(l.Path) == 0 {
				continue
			}
			op := randSetOp(r)
			cur := modelAt(roots, l)
			trace = append(trace, fmt.Sprintf("%v:%s", l, op))
			bad, applied := doSet(pj, roots, l, op, r.Intn(nRoutes))
			w.Eval(1)
			if bad != "" {
				w.Violation("C14/set-after-delete/"+setNames[op.Kind]+"-on-"+cur.K.String(), fmt.Sprintf("%s; doc=%s history=%v", bad, q(doc), lastN(trace, 6)), cs)
				return
			}
			if applied {
				effective++
			}
			if !w.c14After(pj, roots, "step"+fmt.Sprint(step)+"-"+setNames[op.Kind], fmt.Sprintf("doc=%s history=%v", q(doc), lastN(trace, 6)), cs, false) {
				return
			}
			continue
		}
		var cl []Loc
		for _, l := range locs {
			c := modelAt(roots, l)
			if (c.K == ref.Array || c.K == ref.Object) && len(c.A)+len(c.Vals) > 0 {
				cl = append(cl, l)
			}
		}
		if len(cl) == 0 {
			break
		}
		l := cl[r.Intn(len(cl))]
		c := modelAt(roots, l)
		n := len(c.A) + len(c.Vals)
		d := delOp{L: l, Mask: r.Uint64(), Variant: 0}
		switch r.Intn(6) {
		case 0:
			d.Mask = 1 // first
		case 1:
			d.Mask = 1 << uint((n-1)%64) // last
		case 2:
			d.Mask = ^uint64(0) // all
		case 3:
			d.Mask = 3 << uint(r.Intn(n)) // adjacent run
		}
		if c.K == ref.Object && uniqueKeys(c) {
			d.Variant = r.Intn(3)
		}
		if r.Chance(1, 10) && len(l.Path) > 0 {
			d.Variant = 3
		}
		opdesc := d.desc(c)
		trace = append(trace, fmt.Sprintf("%v:%s", l, opdesc))
		var bad string
		perr := walk.Guard(func() error {
			bad = doDelete(pj, roots, d)
			return nil
		})
		w.Eval(1)
		detail := fmt.Sprintf("doc=%s history=%v", q(doc), lastN(trace, 6))
		if perr != nil {
			bad = "panic: " + perr.Error()
		}
		if bad != "" {
			w.Violation(fmt.Sprintf("C14/DeleteElems/step%d-%s", step, opdesc), bad+"; "+detail, cs)
			return
		}
		effective++
		if !w.c14After(pj, roots, fmt.Sprintf("step%d-%s", step, opdesc), detail, cs, step == depth-1 || r.Chance(1, 3)) {
			return
		}
	}
	w.Count("histories", 1)
	w.Count("history_steps", len(trace))
	if effective >= 1 {
		w.Nontrivial(gen.Hash64(doc, []byte(fmt.Sprint(hseed, depth))))
	}
	if w.WantSample() {
		w.Sample(map[string]interface{}{"doc": q(doc), "history": lastN(trace, 8)})
	}
}

// c14Large: deletions across the serializer's 65536-tag and 64 KiB value flush
// boundaries in a large array; the serialize round trip is the reader of interest.
func (w *W) c14Large(st *histState, n int, lo, hi int) {
	st.idx++
	if !w.mine(st.idx) {
		return
	}
	var b []byte
	b = append(b, '[')
	for i := 0; i < n; i++ {
		if i > 0 {
			b = append(b, ',')
		}
		b = append(b, byte('0'+i%10))
	}
	b = append(b, ']')
	cs := &ev.Case{Gen: "large-array", A: int64(n), B: int64(lo), C: int64(hi)}
	w.Journal(cs)
	if w.Skip() {
		return
	}
	a := ref.Analyze(b)
	p, err, _ := w.parseGuarded(b, w.configs()[st.idx%len(w.configs())], false, false)
	if err != nil || a.Class != ref.MustAccept {
		return
	}
	pj := p.Clone(nil)
	roots := []*ref.Value{a.Value}
	opdesc := fmt.Sprintf("array-n=%d-delete[%d,%d)", n, lo, hi)
	perr := walk.Guard(func() error {
		it, err := locateInto(pj, Loc{})
		if err != nil {
			return err
		}
		arr, err := it.Array(nil)
		if err != nil {
			return err
		}
		k := 0
		arr.DeleteElems(func(i simdjson.Iter) bool {
			d := k >= lo && k < hi
			k++
			return d
		})
		return nil
	})
	w.Eval(1)
	if perr != nil {
		w.Violation("C14/DeleteElems/"+opdesc, "DeleteElems failed: "+perr.Error(), cs)
		return
	}
	del := map[int]bool{}
	for i := lo; i < hi; i++ {
		del[i] = true
	}
	modelDelete(roots[0], del)
	w.c14After(pj, roots, opdesc, "generated array of single-digit integers", cs, true)
	w.Count("large_array_boundary_deletions", 1)
	w.Nontrivial(gen.Hash64([]byte(opdesc)))
}

func runC14(w *W) {
	st := &histState{}
	// tag number t of element i is i+2 (root, '['); value words: 1 for '[' then 1 per element
	for _, boundary := range []int{65536, 131072} {
		for _, span := range [][2]int{{-3, 3}, {-2, 0}, {0, 2}, {-1, 1}, {-5000, 5000}, {-2, -1}, {1, 2}} {
			w.c14Large(st, boundary+8000, boundary-2+span[0], boundary-2+span[1])
		}
	}
	for _, span := range [][2]int{{8190, 8194}, {8188, 8190}, {0, 8192}, {8191, 8193}} {
		w.c14Large(st, 20000, span[0], span[1])
	}
	// member names of 63, 64, 65, 100 and 300 bytes next to short ones: every subset, with fn, with a
	// key filter and with both (whatever a filter does with a name, it does not depend on its length)
	for v := 0; v < 4; v++ {
		names := []int{63, 64, 65, 100, 300, 3}
		var b bytes.Buffer
		b.WriteString(`{"first":1`)
		for i, n := range names[v : v+3] {
			fmt.Fprintf(&b, `,"%s":%s`, strings.Repeat(string(rune('a'+i)), n), []string{`"s"`, `[1,2]`, `{"x":null}`, `2.5`}[(i+v)%4])
		}
		b.WriteString(`,"last":true}`)
		w.c14Enumerate(st, "long-names", b.Bytes())
	}
	nEnum, nHist := 2500, 20000
	if w.thorough() {
		nEnum, nHist = 40000, 400000
	}
	w.editDocs(nEnum, func(g string, doc []byte, k int) {
		if len(doc) < 4000 {
			w.c14Enumerate(st, g, doc)
		}
	})
	w.editDocs(nHist, func(g string, doc []byte, k int) {
		w.c14History(st, g, doc, int64(w.Out.Seed)*7000003+int64(k), 1+k%4)
	})
}

func replayC14(w *W, cs *ev.Case) {
	w.Out.NShards = 1
	if cs.A == -1 {
		w.c14Enumerate(&histState{}, cs.Gen, cs.Input)
		return
	}
	w.c14History(&histState{}, cs.Gen, cs.Input, cs.A, int(cs.B))
}
