package main

import (
	"bytes"
	"errors"
	"fmt"
	"io"
	"runtime"
	"strings"

	simdjson "github.com/minio/simdjson-go"

	"verifharness/ev"
	"verifharness/gen"
	"verifharness/ref"
	"verifharness/sched"
	"verifharness/walk"
)

func init() { register("C09", runC09, replayC09) }

var errInjected = errors.New("injected reader failure")

// errInjectedEOF is a reader failure that *wraps* io.EOF (as url.Error or a "%w" of a lower
// layer's EOF does): it is an error of the reader, not the end of the stream.
type wrapEOF struct{}

func (wrapEOF) Error() string        { return "injected reader failure (unexpected EOF from a lower layer)" }
func (wrapEOF) Is(target error) bool { return target == errInjected || target == io.EOF }
func (wrapEOF) Unwrap() error        { return io.EOF }

var errInjectedEOF error = wrapEOF{}

// testReader serves data in fragments chosen by a partition policy and can
// fail at a byte offset.
type testReader struct {
	data    []byte
	pos     int
	r       *gen.Rand
	frag    int // 0: 1 byte, 1: 1..7, 2: powers of two, 3: up to line end, 4: just past line end, 5: just before line end, 6: everything, 7: random up to 64 KiB
	failAt  int // -1: never
	eofMode int // 0: (n, EOF) together with the last bytes, 1: (0, EOF) separately
	done    func()
	reads   int
	failErr error // what a failing Read returns (errInjected or errInjectedEOF)
}

func (t *testReader) Read(p []byte) (int, error) {
	t.reads++
	if t.failAt >= 0 && t.pos >= t.failAt {
		if t.done != nil {
			t.done()
		}
		return 0, t.failErr
	}
	if t.pos >= len(t.data) {
		if t.done != nil {
			t.done()
		}
		return 0, io.EOF
	}
	rest := t.data[t.pos:]
	n := 1
	nl := bytes.IndexByte(rest, '\n')
	switch t.frag {
	case 0:
		n = 1
	case 1:
		n = 1 + t.r.Intn(7)
	case 2:
		n = 1 << uint(t.r.Intn(14))
	case 3:
		n = nl + 1
		if nl < 0 {
			n = len(rest)
		}
	case 4:
		n = nl + 2
		if nl < 0 {
			n = len(rest)
		}
	case 5:
		n = nl
		if nl <= 0 {
			n = 1
		}
	case 6:
		n = len(rest)
	default:
		n = 1 + t.r.Intn(65536)
	}
	if n > len(rest) {
		n = len(rest)
	}
	if n > len(p) {
		n = len(p)
	}
	if t.failAt >= 0 && t.pos+n > t.failAt {
		n = t.failAt - t.pos
		if n == 0 {
			if t.done != nil {
				t.done()
			}
			return 0, t.failErr
		}
	}
	copy(p, rest[:n])
	t.pos += n
	if t.failAt >= 0 && t.pos >= t.failAt && t.eofMode == 1 {
		// a failing reader may hand out its last bytes together with the error (n > 0, err != nil),
		// as io.Reader allows, instead of in a call of their own
		if t.done != nil {
			t.done()
		}
		return n, t.failErr
	}
	if t.pos >= len(t.data) && t.eofMode == 0 && t.failAt < 0 {
		if t.done != nil {
			t.done()
		}
		return n, io.EOF
	}
	return n, nil
}

type c09Cfg struct {
	frag     int
	failAt   int
	eofMode  int
	policy   sched.StreamPolicy
	procs    int
	resBuf   int
	reuse    int // 0 none, 1 recycle all, 2 every other, 3 full reuse channel never drained by us
	slowCons bool
}

func (c c09Cfg) String() string {
	return fmt.Sprintf("frag=%d,failAt=%d,eof=%d,policy=%s,procs=%d,resbuf=%d,reuse=%d,slow=%v", c.frag, c.failAt, c.eofMode, c.policy, c.procs, c.resBuf, c.reuse, c.slowCons)
}

// c09Run streams data under cfg and judges the recorded sequence.
func (w *W) c09Run(sm *sched.Stream, name string, data []byte, want []*ref.Value, cfg c09Cfg, seed uint64, cs *ev.Case) {
	cs.Text = name + "," + cfg.String()
	w.Journal(cs)
	if w.Skip() {
		return
	}
	runtime.GOMAXPROCS(cfg.procs)
	conc := (cfg.procs + 1) / 2
	j := conc - 1
	if j > 3 {
		j = 3
	}
	sm.Reset(cfg.policy, j, seed)
	r := gen.New(seed, "c09run")
	rd := &testReader{data: data, r: r.Split(), frag: cfg.frag, failAt: cfg.failAt, eofMode: cfg.eofMode, done: sm.ReaderDone, failErr: errInjected}
	if cfg.failAt >= 0 && (cfg.failAt+cfg.frag+cfg.reuse)%2 == 1 {
		rd.failErr = errInjectedEOF
	}
	res := make(chan simdjson.Stream, cfg.resBuf)
	var reuse chan *simdjson.ParsedJson
	if cfg.reuse > 0 {
		reuse = make(chan *simdjson.ParsedJson, 2)
		if cfg.reuse == 3 {
			reuse <- &simdjson.ParsedJson{}
			reuse <- &simdjson.ParsedJson{}
		}
	}
	simdjson.ParseNDStream(rd, res, reuse)
	w.Eval(1)
	got := 0
	elems, values := 0, 0
	sawErr := false
	var finalErr error
	bad := func(key, detail string) {
		w.Violation("C09/"+key, fmt.Sprintf("%s; stream=%s (%d bytes, %d documents) config=%s", detail, name, len(data), len(want), cfg), cs)
	}
	reported := false
	for s := range res {
		elems++
		if (s.Value == nil) == (s.Error == nil) {
			if !reported {
				bad("element-with-both-or-neither", fmt.Sprintf("element %d has Value-nil=%v Error=%v", elems, s.Value == nil, s.Error))
				reported = true
			}
			continue
		}
		if s.Error != nil {
			if sawErr && !reported {
				bad("second-error-element", fmt.Sprintf("a second error element arrived: %v after %v", s.Error, finalErr))
				reported = true
			}
			sawErr = true
			finalErr = s.Error
			continue
		}
		values++
		if sawErr && !reported {
			bad("value-after-error", fmt.Sprintf("a Value was delivered after the error %v (element %d)", finalErr, elems))
			reported = true
		}
		roots, err := walk.Into(s.Value)
		if err != nil {
			if !reported {
				bad("unreadable-value", fmt.Sprintf("delivered value %d cannot be traversed: %v", values, err))
				reported = true
			}
			continue
		}
		for _, rt := range roots {
			if got >= len(want) {
				if !reported {
					bad("extra-document", fmt.Sprintf("more documents delivered than the stream holds (%d)", len(want)))
					reported = true
				}
				break
			}
			if d := ref.Diff(want[got], rt); d != "" && !reported {
				bad("wrong-document", fmt.Sprintf("delivered document %d is not document %d of the stream: %s", got, got, d))
				reported = true
			}
			got++
		}
		if cfg.slowCons {
			for i := 0; i < 50; i++ {
				runtime.Gosched()
			}
		}
		switch cfg.reuse {
		case 1:
			select {
			case reuse <- s.Value:
			default:
			}
		case 2:
			if values%2 == 0 {
				select {
				case reuse <- s.Value:
				default:
				}
			}
		}
	}
	// channel closed
	if reported {
		return
	}
	if cfg.failAt < 0 {
		if finalErr == nil {
			bad("no-final-error", "the channel was closed without an io.EOF element")
			return
		}
		if finalErr != io.EOF {
			bad("well-formed-stream-error", fmt.Sprintf("a well-formed stream ended with %v instead of io.EOF after %d of %d documents", finalErr, got, len(want)))
			return
		}
		if got != len(want) {
			bad("documents-missing", fmt.Sprintf("io.EOF after %d of %d documents", got, len(want)))
			return
		}
	} else {
		if finalErr == nil {
			bad("no-final-error", "reader failed but the channel was closed without an error element")
			return
		}
		if finalErr == io.EOF {
			bad("reader-error-taken-for-end-of-stream", fmt.Sprintf("the reader failed with %q but the stream ended with a plain io.EOF (after %d documents)", rd.failErr, got))
			return
		}
		if !errors.Is(finalErr, errInjected) {
			bad("reader-error-not-delivered", fmt.Sprintf("the reader failed with %v but the stream delivered %v (after %d documents)", errInjected, finalErr, got))
			return
		}
		// got documents form a prefix (checked incrementally above)
	}
	w.Count("streams", 1)
	w.Count("chunks", sm.Queued())
	w.Count("out_of_order_completions_observed", int(sm.OutOfOrder))
	w.Count("chunk_holds", int(sm.Held))
	w.Count("chunk_hold_budget_exhausted", int(sm.Exhausted))
	w.Count("reader_calls", rd.reads)
	w.Max("max_chunks_per_stream", int64(sm.Queued()))
	w.SetAdd("fragmentations", fmt.Sprintf("frag%d/eof%d", cfg.frag, cfg.eofMode))
	if cfg.failAt >= 0 {
		w.Count("streams_with_injected_reader_error", 1)
	}
	if sm.Queued() >= 2 {
		w.Nontrivial(gen.Hash64([]byte(name), []byte(cfg.String())))
	}
	if w.WantSample() {
		w.Sample(map[string]interface{}{"stream": name, "bytes": len(data), "documents": len(want), "config": cfg.String(), "chunks": sm.Queued(), "out_of_order": sm.OutOfOrder})
	}
}

type c09Stream struct {
	name string
	data []byte
	want []*ref.Value
}

func c09Build(name string, lines []string, sep string, final bool) *c09Stream {
	s := &c09Stream{name: name}
	var b bytes.Buffer
	for i, ln := range lines {
		b.WriteString(ln)
		if i < len(lines)-1 || final {
			b.WriteString(sep)
		}
		if len(ref.TrimJSONWS([]byte(ln))) > 0 {
			a := ref.Analyze([]byte(ln))
			if a.Class != ref.MustAccept {
				return nil
			}
			s.want = append(s.want, a.Value)
		}
	}
	s.data = b.Bytes()
	return s
}

func (w *W) c09Streams(th bool) []*c09Stream {
	r := w.rng("c09streams")
	var out []*c09Stream
	add := func(s *c09Stream) {
		if s != nil {
			out = append(out, s)
		}
	}
	add(c09Build("two-docs", []string{`{"a":1}`, `{"b":2}`}, "\n", true))
	add(c09Build("blank-runs", []string{`{"a":1}`, ``, ``, `{"b":2}`}, "\n", true))
	add(c09Build("leading-blank", []string{``, ``, `[1]`, `[2]`}, "\n", true))
	add(c09Build("trailing-blank", []string{`[1]`, `[2]`, ``, ``, ``}, "\n", true))
	add(c09Build("ws-lines", []string{`[1]`, `  `, "\t", `[2]`, ` `}, "\n", true))
	add(c09Build("crlf", []string{`{"a":1}`, `{"b":[1,2]}`, ``, `[3]`}, "\r\n", true))
	add(c09Build("no-final-newline", []string{`{"a":1}`, `{"b":2}`}, "\n", false))
	add(c09Build("single", []string{`{"only":true}`}, "\n", true))
	add(c09Build("single-no-newline", []string{`[1,2,3]`}, "\n", false))
	// the shortest documents there are ({} and [] are two bytes: shorter than any margin or minimum the
	// chunking code may use), alone in their chunk under byte-wise and line-wise reads
	add(c09Build("minimal-empty-containers", []string{`{}`, `[]`, `{}`, `[]`}, "\n", true))
	add(c09Build("minimal-mixed", []string{`[0]`, `{}`, `[]`, `{"":0}`, `[]`, `[[]]`, `{}`}, "\n", true))
	add(c09Build("minimal-padded", []string{` {} `, "\t[]\t", `[ ]`, `{ }`, `  []`}, "\n", true))
	add(c09Build("minimal-crlf", []string{`{}`, `[]`, ``, `{}`}, "\r\n", true))
	add(c09Build("minimal-no-final-newline", []string{`[]`, `{}`}, "\n", false))
	add(c09Build("minimal-single", []string{`{}`}, "\n", true))
	add(c09Build("minimal-single-no-newline", []string{`[]`}, "\n", false))
	mk := func(name string, n int, maxDoc int, blankEvery int) {
		var lines []string
		for i := 0; i < n; i++ {
			if blankEvery > 0 && r.Intn(blankEvery) == 0 {
				lines = append(lines, []string{"", " ", "", "\t"}[r.Intn(4)])
				if r.Bool() {
					lines = append(lines, "")
				}
			}
			size := 10 + r.Intn(maxDoc)
			lines = append(lines, string(gen.Doc(r.Split(), gen.DocCfg{Size: size, MaxDepth: 3, MaxFan: 5, WS: r.Intn(2), Esc: 20, NoLF: true, DupKeys: true})))
		}
		add(c09Build(name, lines, "\n", r.Bool()))
	}
	mk("small-20", 20, 60, 4)
	mk("small-200", 200, 80, 5)
	mk("medium-50", 50, 600, 6)
	mk("big-lines", 12, 12000, 3)
	mk("many-2000", 2000, 60, 10)
	if th {
		mk("many-20000", 20000, 100, 10)
		// > 20 MiB: several 10 MiB chunks even with one huge read
		var lines []string
		total := 0
		for total < 23<<20 {
			d := string(gen.Doc(r.Split(), gen.DocCfg{Size: 4000 + r.Intn(8000), MaxDepth: 4, MaxFan: 8, Esc: 10, NoLF: true}))
			lines = append(lines, d)
			total += len(d)
		}
		add(c09Build("over-20MiB", lines, "\n", true))
	}
	// index-dense chunks (every LF is an index entry) of 7..24 KB: around whatever size decides
	// between the one-goroutine and the two-goroutine parse of a chunk
	for n := 7000; n <= 24500; n += 700 {
		lines := []string{`{"a":1}`}
		for i := 0; i < n; i++ {
			lines = append(lines, "")
		}
		lines = append(lines, `{"b":2}`)
		add(c09Build(fmt.Sprintf("blank-dense-%d", n), lines, "\n", true))
	}
	// a little more than one 10 MiB read of short lines: the first chunk is a completely full read
	// buffer plus the tail of the line it ends in (a few hundred bytes: within whatever slack the
	// chunk buffer has beyond the read size), the second chunk is what is left
	{
		var lines []string
		total := 0
		for total < 10<<20+300<<10 {
			d := string(gen.Doc(r.Split(), gen.DocCfg{Size: 100 + r.Intn(800), MaxDepth: 3, MaxFan: 6, Esc: 10, NoLF: true}))
			lines = append(lines, d)
			total += len(d) + 1
		}
		add(c09Build("short-lines-over-10MiB", lines, "\n", true))
	}
	// one line larger than the 10 MiB read buffer, fetched by the read-until-newline step
	big := `{"big":"` + strings.Repeat("x", 11<<20) + `"}`
	add(c09Build("line-over-10MiB", []string{`{"a":1}`, big, `{"z":2}`}, "\n", true))
	return out
}

func runC09(w *W) {
	th := w.thorough()
	sm := sched.NewStream()
	simdjson.VerifSetHook(sm.Hook)
	defer simdjson.VerifSetHook(nil)
	streams := w.c09Streams(th)
	race := w.Out.Variant == "race"
	idx := 0
	r := w.rng("c09cfg")
	for si, s := range streams {
		cs := &ev.Case{Gen: "c09", A: int64(si)}
		if len(s.data) <= 1<<20 {
			cs.Input = s.data
		}
		chunksIfTiny := len(s.data) // 1-byte reads give about one chunk per byte
		for frag := 0; frag < 8; frag++ {
			if (frag == 0 || frag == 1) && chunksIfTiny > 4000 {
				continue // every chunk allocates a 10 MiB buffer: byte-wise reads only for short streams
			}
			bulk := strings.HasPrefix(s.name, "blank-dense") // thousands of lines: line-wise reads would make one 10 MiB chunk buffer per blank line
			if (len(s.data) > 4<<20 || bulk) && frag != 6 && frag != 7 && frag != 2 {
				continue
			}
			for variant := 0; variant < 6; variant++ {
				idx++
				if !w.mine(idx) {
					continue
				}
				if race && variant%2 == 1 {
					continue
				}
				cfg := c09Cfg{frag: frag, failAt: -1, eofMode: variant % 2,
					policy:   sched.StreamPolicy(variant % sched.NStreamPolicies),
					procs:    []int{1, 2, 16, 4, 16, 2}[variant],
					resBuf:   []int{0, 1, 8, 0, 0, 3}[variant],
					reuse:    []int{0, 1, 2, 3, 1, 0}[variant],
					slowCons: variant == 2 || variant == 5,
				}
				w.c09Run(sm, s.name, s.data, s.want, cfg, w.Out.Seed*100000+uint64(idx), cs)
			}
		}
		// reader errors at byte offsets: every offset for short streams, sampled otherwise
		if len(s.data) > 2<<20 {
			continue
		}
		step := 1
		bulk := strings.HasPrefix(s.name, "blank-dense")
		if len(s.data) > 300 {
			step = len(s.data)/120 + 1
			if th {
				step = len(s.data)/1500 + 1
			}
			if bulk {
				step = len(s.data)/8 + 1
			}
		}
		for k := 0; k <= len(s.data); k += step {
			idx++
			if !w.mine(idx) {
				continue
			}
			at := k
			if step > 1 {
				at = k + r.Intn(step)
				if at > len(s.data) {
					at = len(s.data)
				}
			}
			frag := []int{3, 7, 2, 6, 1}[idx%5]
			if frag == 1 && len(s.data) > 4000 || bulk && frag == 3 {
				frag = 7
			}
			cfg := c09Cfg{frag: frag, failAt: at, eofMode: (idx / 5) % 2, policy: sched.StreamPolicy(idx % sched.NStreamPolicies), procs: []int{2, 16, 4}[idx%3], resBuf: idx % 2, reuse: idx % 3}
			w.c09Run(sm, s.name, s.data, s.want, cfg, w.Out.Seed*100000+uint64(idx), cs)
		}
	}
	runtime.GOMAXPROCS(2)
}

func replayC09(w *W, cs *ev.Case) {
	fmt.Println("C09 cases are (stream, reader/schedule configuration) tuples named in the case text; re-run ./check C09 with the same seed:", cs.Text)
}
