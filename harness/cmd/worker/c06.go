package main

import (
	"bytes"
	"fmt"
	"strings"

	simdjson "github.com/minio/simdjson-go"

	"verifharness/ev"
	"verifharness/gen"
	"verifharness/walk"
)

func init() { register("C06", runC06, replayC06) }

type c06State struct {
	n   int
	min int
}

// c06Compare parses in with both kernel families (own reuse banks, so both
// results stay alive) and reports the first difference.
func (w *W) c06Compare(in []byte, nd bool, copyStr bool, bankBase int) (diff string, accepted bool, panicked error) {
	var a, b *simdjson.ParsedJson
	var ea, eb error
	panicked = walk.Guard(func() error {
		a, ea = w.parseSlot(in, Config{false, copyStr}, nd, false, bankBase)
		b, eb = w.parseSlot(in, Config{true, copyStr}, nd, false, bankBase+1)
		return nil
	})
	if panicked != nil {
		return "", false, panicked
	}
	if (ea == nil) != (eb == nil) {
		return fmt.Sprintf("avx2 err=%v, avx512 err=%v", ea, eb), false, nil
	}
	if ea != nil {
		return "", false, nil
	}
	if len(a.Tape) != len(b.Tape) {
		return fmt.Sprintf("tape lengths differ: avx2 %d, avx512 %d", len(a.Tape), len(b.Tape)), true, nil
	}
	for i := range a.Tape {
		if a.Tape[i] != b.Tape[i] {
			return fmt.Sprintf("tape word %d differs: avx2 %#x, avx512 %#x", i, a.Tape[i], b.Tape[i]), true, nil
		}
	}
	var sa, sb []byte
	if a.Strings != nil {
		sa = a.Strings.B
	}
	if b.Strings != nil {
		sb = b.Strings.B
	}
	if !bytes.Equal(sa, sb) {
		return fmt.Sprintf("string buffers differ (%d vs %d bytes)", len(sa), len(sb)), true, nil
	}
	return "", true, nil
}

func (w *W) c06Judge(st *c06State, g string, in []byte) {
	cs := &ev.Case{Gen: g, Input: in}
	w.Journal(cs)
	if w.Skip() {
		return
	}
	st.n++
	past := false
	for _, nd := range []bool{false, true} {
		for _, cp := range []bool{true, false} {
			diff, acc, pan := w.c06Compare(in, nd, cp, 2)
			w.Eval(1)
			api := "Parse"
			if nd {
				api = "ParseND"
			}
			if pan != nil {
				w.Violation("C06/panic/"+api+"/"+genClass(g), fmt.Sprintf("%s panicked: %v; input=%s", api, pan, q(in)), cs)
				continue
			}
			if acc {
				past = true
				w.Count("both_accepted", 1)
			} else if diff == "" {
				w.Count("both_rejected", 1)
			}
			if diff == "" {
				continue
			}
			min := in
			if st.min < 300 && len(in) <= 1<<16 {
				st.min++
				min = minimize(in, func(b []byte) bool {
					d, _, p := w.c06Compare(b, nd, cp, 2)
					return p == nil && d != ""
				}, 1500)
			}
			w.Violation("C06/"+api+"/"+q(min), fmt.Sprintf("%s(copy=%v) differs between kernels: %s; input=%s (from %s %s)", api, cp, diff, q(min), g, q(in)), cs)
		}
	}
	if past {
		w.Nontrivial(gen.Hash64(in))
	}
	if w.WantSample() {
		w.Sample(map[string]interface{}{"gen": g, "input": q(in), "accepted_by_some_call": past})
	}
}

func runC06(w *W) {
	if !w.hasAVX512 {
		w.Inconclusive("CPU lacks AVX-512: the two kernel families cannot be compared here")
		return
	}
	st := &c06State{}
	judge := func(g string, in []byte) { w.c06Judge(st, g, in) }
	th := w.thorough()
	// inputs shared with C01
	if th {
		w.genTokens(5, judge)
		w.genNumSpellings(6, judge)
	} else {
		w.genTokens(4, judge)
	}
	w.genNumLong(judge)
	w.genAtoms(judge)
	off := []int{0, 1, 30, 31, 32, 33, 61, 62, 63}
	w.genStringBytes(off, judge)
	w.genAlign([]int{0, 31, 62, 63, 64, 65, 127, 128}, []int{1407, 1408, 1409, 2816}, judge)
	w.genAlignLarge([]int{64 << 10}, judge)
	w.genBoundaryPairs(judge)
	w.genFillBlock(fillStep(w), judge)
	w.genBufferFill(judge)
	w.genFillThenBlank(judge)
	w.genBlankRunInString(judge)
	w.genCarryThenNothing(judge)
	w.genDenseSizes(judge)
	w.genBackslashRuns(judge)
	w.genSpaceInDense([]int{1500, 9000}, judge)
	w.genAlignedPartial(10, 110, 3, judge)
	w.genAlignedPartial(130, 180, 2, judge)
	// tail-focused: every length 1..512 with interesting bytes at each of the last 64 positions
	interesting := []byte{'"', '\\', '\n', '{', '}', '[', ']', ',', ':', 0x1f, 0x80, ' ', 'a'}
	i := 0
	maxLen := 200
	if th {
		maxLen = 512
	}
	for l := 1; l <= maxLen; l++ {
		for p := l - 1; p >= 0 && p >= l-64; p-- {
			for _, c := range interesting {
				i++
				if !w.mine(i) {
					continue
				}
				if !th && (l+p+int(c))%3 != 0 {
					continue
				}
				// base: a valid array of strings/numbers of exactly l bytes when possible
				b := tailBase(l)
				b[p] = c
				judge("tail", b)
			}
		}
	}
	// carry-focused: quote / odd backslash run / pseudo-structural predecessor straddling block boundaries
	for blk := 1; blk <= 3; blk++ {
		for d := -4; d <= 4; d++ {
			pos := blk*64 + d
			for _, mid := range []string{`"`, `\"`, `\\"`, `\\\"`, `"x"`, `1`, `true`, `,`, ` `, "\n", `"\n"`, `A`, "\"\\\\\",\"", `\\\\`} {
				i++
				if !w.mine(i) {
					continue
				}
				pre := `["` + strings.Repeat("a", pos-2)
				judge("carry", []byte(pre+mid+`","z"]`))
				judge("carry", []byte(pre+`",`+mid+`,"z"]`))
				judge("carry-nd", []byte(`{"a":"`+strings.Repeat("a", pos-6)+mid+"\"}\n{\"b\":1}"))
			}
		}
	}
	// valid documents, NDJSON, mutants, random
	scale := 1
	if th {
		scale = 40
	}
	w.eachValidDoc(scale, judge)
	w.eachNDInput(scale, judge)
	docs := w.seedDocs(700<<10, 100, 20)
	per := 80
	if th {
		per = 600
	}
	w.genMutants(docs, func(size int) int {
		if size > 64<<10 {
			return per / 6
		}
		return per
	}, judge)
	nr := 1000000
	if th {
		nr = 20000000
	}
	w.genRandom(nr, 300, judge)
}

// tailBase returns a mostly valid document of exactly l bytes.
func tailBase(l int) []byte {
	b := make([]byte, l)
	for i := range b {
		b[i] = "1,"[i%2]
	}
	b[0] = '['
	if l >= 2 {
		b[l-1] = ']'
		if b[l-2] == ',' {
			b[l-2] = ' '
		}
	}
	return b
}

func replayC06(w *W, cs *ev.Case) {
	if !w.hasAVX512 {
		fmt.Println("no AVX-512 on this CPU")
		return
	}
	w.c06Judge(&c06State{}, cs.Gen, cs.Input)
}
