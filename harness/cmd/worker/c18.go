package main

import (
	"bytes"
	"encoding/json"
	"fmt"
	"math"
	"strconv"
	"strings"

	simdjson "github.com/minio/simdjson-go"

	"verifharness/ev"
	"verifharness/walk"
)

func init() { register("C18", runC18, replayC18) }

const c18Batch = 512

type c18State struct {
	tmpl  *simdjson.ParsedJson
	batch []float64
	seen  int
	out   []byte
	seenB map[uint64]struct{}
}

func (w *W) c18Init() *c18State {
	// every other slot starts life as an over-long integer literal: a float that carries the
	// "overflowed integer" parse flag in its tag word until SetFloat replaces it
	doc := "[" + strings.Repeat("0.5,18446744073709551616,", c18Batch/2-1) + "0.5,18446744073709551616]"
	pj, err := simdjson.Parse([]byte(doc), nil)
	if err != nil {
		w.Inconclusive("C18 template does not parse: " + err.Error())
		return nil
	}
	return &c18State{tmpl: pj, seenB: map[uint64]struct{}{}}
}

// c18Check compares one rendering with the three oracles.
func (w *W) c18Check(f float64, text []byte, via string) {
	w.Eval(1)
	cs := &ev.Case{Gen: "c18", A: int64(math.Float64bits(f)), Text: strconv.FormatFloat(f, 'g', -1, 64)}
	want, err := json.Marshal(f)
	if err != nil {
		return
	}
	key := fmt.Sprintf("C18/%s/bits=%#016x", via, math.Float64bits(f))
	if !bytes.Equal(want, text) {
		w.Violation(key, fmt.Sprintf("%s renders %v as %q, encoding/json gives %q", via, f, text, want), cs)
		return
	}
	// independent of encoding/json: round trip and digit count
	back, err := strconv.ParseFloat(string(text), 64)
	if err != nil || math.Float64bits(back) != math.Float64bits(f) {
		if !(f == 0 && back == 0) || err != nil {
			w.Violation(key, fmt.Sprintf("%s renders %v as %q which parses back to %v (%v)", via, f, text, back, err), cs)
			return
		}
	}
	if digits(text) != digits([]byte(strconv.FormatFloat(f, 'e', -1, 64))) {
		w.Violation(key, fmt.Sprintf("%s renders %v as %q: %d significant digits, shortest is %d", via, f, text, digits(text), digits([]byte(strconv.FormatFloat(f, 'e', -1, 64)))), cs)
		return
	}
	// ECMAScript format: exponent form exactly outside [1e-6, 1e21)
	abs := math.Abs(f)
	hasExp := bytes.IndexByte(text, 'e') >= 0
	wantExp := abs != 0 && (abs < 1e-6 || abs >= 1e21)
	if hasExp != wantExp {
		w.Violation(key, fmt.Sprintf("%s renders %v as %q: exponent form %v, ECMAScript wants %v", via, f, text, hasExp, wantExp), cs)
	}
}

// digits counts significant digits of a decimal rendering.
func digits(t []byte) int {
	if i := bytes.IndexAny(t, "eE"); i >= 0 {
		t = t[:i]
	}
	var d []byte
	for _, c := range t {
		if c >= '0' && c <= '9' {
			d = append(d, c)
		}
	}
	d = bytes.TrimLeft(d, "0")
	d = bytes.TrimRight(d, "0")
	if len(d) == 0 {
		return 1
	}
	return len(d)
}

func (w *W) c18Flush(st *c18State) {
	if len(st.batch) == 0 {
		return
	}
	n := len(st.batch)
	for len(st.batch) < c18Batch {
		st.batch = append(st.batch, 0.5)
	}
	w.Journal(&ev.Case{Gen: "c18-batch", A: int64(math.Float64bits(st.batch[0])), B: int64(n)})
	err := walk.Guard(func() error {
		it := st.tmpl.Iter()
		k := 0
		for {
			tag := it.AdvanceInto()
			if tag == simdjson.TagEnd {
				break
			}
			if tag != simdjson.TagFloat {
				continue
			}
			if err := it.SetFloat(st.batch[k]); err != nil {
				return err
			}
			if k < n {
				s, err := it.StringCvt()
				if err != nil {
					return fmt.Errorf("StringCvt(%v): %w", st.batch[k], err)
				}
				w.c18Check(st.batch[k], []byte(s), "StringCvt")
			}
			k++
		}
		if k != c18Batch {
			return fmt.Errorf("template has %d floats", k)
		}
		root := st.tmpl.Iter()
		var err error
		st.out, err = root.MarshalJSONBuffer(st.out[:0])
		if err != nil {
			return err
		}
		out := st.out
		if len(out) < 2 || out[0] != '[' || out[len(out)-1] != ']' {
			return fmt.Errorf("marshalled template is not an array: %.60q", out)
		}
		parts := bytes.Split(out[1:len(out)-1], []byte(","))
		if len(parts) != c18Batch {
			return fmt.Errorf("marshalled template has %d elements", len(parts))
		}
		for i := 0; i < n; i++ {
			w.c18Check(st.batch[i], parts[i], "MarshalJSON")
		}
		return nil
	})
	if err != nil {
		w.Violation("C18/batch-failed", fmt.Sprintf("marshalling a batch starting with %v failed: %v", st.batch[0], err), &ev.Case{Gen: "c18-batch", A: int64(math.Float64bits(st.batch[0]))})
	}
	for _, f := range st.batch[:n] {
		b := math.Float64bits(f)
		if len(st.seenB) < 1<<21 {
			if _, ok := st.seenB[b]; !ok {
				st.seenB[b] = struct{}{}
				w.Nontrivial(b)
			}
		} else {
			w.Nontrivial(b)
		}
	}
	if w.WantSample() {
		w.Sample(map[string]interface{}{"float_bits": fmt.Sprintf("%#016x", math.Float64bits(st.batch[0])), "value": strconv.FormatFloat(st.batch[0], 'g', -1, 64), "batch": n})
	}
	st.batch = st.batch[:0]
}

func (w *W) c18Add(st *c18State, f float64) {
	if math.IsNaN(f) || math.IsInf(f, 0) {
		return
	}
	st.seen++
	if !w.mine(st.seen / c18Batch) {
		return
	}
	st.batch = append(st.batch, f)
	if len(st.batch) >= c18Batch {
		w.c18Flush(st)
	}
}

func runC18(w *W) {
	st := w.c18Init()
	if st == nil {
		return
	}
	th := w.thorough()
	add := func(f float64) { w.c18Add(st, f) }
	r := w.rng("c18")
	// fixed lists first
	for _, f := range []float64{0, math.Copysign(0, -1), 1, -1, 0.1, 0.2, 0.3, 1e21, 1e-6, 1e-7, 1e20, 123456789012345680000, 1e23, 5e-324, math.MaxFloat64, math.SmallestNonzeroFloat64, 2.2250738585072014e-308, 2.225073858507201e-308, 9007199254740992, 9007199254740993, 4.35, 0.000001, 0.0000001, 100, 1e2, 1.5e300, 8.41e21, 2.0 / 3, 1.0 / 3, 5e-7, 9.5367431640625e-7, 4.294967296e9, 1e15, 1e16, 1e17, 123456.789e3} {
		add(f)
		add(-f)
	}
	// every power of ten and both neighbours
	for k := -323; k <= 308; k++ {
		f, _ := strconv.ParseFloat("1e"+strconv.Itoa(k), 64)
		add(f)
		add(math.Nextafter(f, math.Inf(1)))
		add(math.Nextafter(f, math.Inf(-1)))
		add(-f)
	}
	// d x 10^k and dd x 10^k for every k: short digit strings with long runs of zeros on either side of
	// the decimal point (the widest plain-decimal outputs are d x 1e20 and 1e-6 x d)
	for k := -323; k <= 308; k++ {
		for _, m := range []string{"2", "3", "4", "5", "6", "7", "8", "9", "11", "25", "99"} {
			f, err := strconv.ParseFloat(m+"e"+strconv.Itoa(k), 64)
			if err != nil || math.IsInf(f, 0) {
				continue
			}
			add(f)
			if k >= -8 && k <= 22 {
				add(-f)
				add(math.Nextafter(f, math.Inf(1)))
				add(math.Nextafter(f, math.Inf(-1)))
			}
		}
	}
	// the format switches +- 3 ulps
	for _, c := range []float64{1e-6, 1e21, 1e-5, 1e20, 1e22, 1e-7} {
		f := c
		for i := 0; i < 3; i++ {
			f = math.Nextafter(f, math.Inf(-1))
		}
		for i := 0; i < 7; i++ {
			add(f)
			add(-f)
			f = math.Nextafter(f, math.Inf(1))
		}
	}
	// every binade: min, max, min+1, max-1, random
	for e := uint64(0); e <= 2046; e++ {
		base := e << 52
		add(math.Float64frombits(base))
		add(math.Float64frombits(base | (1<<52 - 1)))
		add(math.Float64frombits(base + 1))
		add(math.Float64frombits(base | (1<<52 - 2)))
		for i := 0; i < 3; i++ {
			add(math.Float64frombits(base | r.Uint64()&(1<<52-1)))
		}
		add(-math.Float64frombits(base | r.Uint64()&(1<<52-1)))
	}
	// all 52 subnormal leading-bit positions
	for b := uint(0); b < 52; b++ {
		add(math.Float64frombits(1 << b))
		add(math.Float64frombits(1<<b | (1<<b - 1)))
		add(math.Float64frombits(1<<b | r.Uint64()&(1<<b-1)))
	}
	// integers up to 2^63 scaled by powers of ten; 15/16/17 significant digits
	nInt := 400000
	nRand := 10000000
	if th {
		nInt = 3000000
		nRand = 300000000
	}
	for i := 0; i < nInt; i++ {
		v := r.Uint64() >> uint(1+r.Intn(62))
		k := r.Intn(60) - 30
		add(float64(v) * math.Pow(10, float64(k)))
		if i%3 == 0 {
			d := 15 + r.Intn(3)
			s := strconv.FormatUint(r.Uint64(), 10)
			if len(s) > d {
				s = s[:d]
			}
			f, _ := strconv.ParseFloat(s+"e"+strconv.Itoa(r.Intn(80)-40), 64)
			add(f)
		}
	}
	// uniformly random bit patterns
	for i := 0; i < nRand; i++ {
		add(math.Float64frombits(r.Uint64()))
	}
	w.c18Flush(st)
	// non-finite values must give an error, never output
	for _, f := range []float64{math.Inf(1), math.Inf(-1), math.NaN()} {
		pj, _ := simdjson.Parse([]byte(`[0.5,{"a":0.5}]`), nil)
		it := pj.Iter()
		for {
			tag := it.AdvanceInto()
			if tag == simdjson.TagEnd {
				break
			}
			if tag == simdjson.TagFloat {
				it.SetFloat(f)
			}
		}
		root := pj.Iter()
		out, err := root.MarshalJSON()
		w.Eval(1)
		if err == nil {
			w.Violation(fmt.Sprintf("C18/non-finite/%v", f), fmt.Sprintf("MarshalJSON of a tape holding %v returned %q without error", f, out), &ev.Case{Gen: "c18-nonfinite", Text: fmt.Sprint(f)})
		} else {
			w.Count("non_finite_rejected", 1)
		}
	}
}

func replayC18(w *W, cs *ev.Case) {
	st := w.c18Init()
	if st == nil {
		return
	}
	f := math.Float64frombits(uint64(cs.A))
	st.batch = append(st.batch, f)
	w.c18Flush(st)
	fmt.Printf("float %v bits %#016x\n", f, uint64(cs.A))
}
