package main

import (
	"bytes"
	"errors"
	"fmt"
	"math"
	"math/big"
	"strconv"
	"strings"

	simdjson "github.com/minio/simdjson-go"

	"verifharness/ev"
	"verifharness/gen"
	"verifharness/ref"
	"verifharness/walk"
)

func init() { register("C12", runC12, replayC12) }

type c12State struct {
	n   int
	idx int
}

// --- numeric conversion oracle (math/big) ---

var (
	bigMinI64 = new(big.Float).SetInt64(math.MinInt64)
	bigMaxI64 = new(big.Float).SetInt64(math.MaxInt64)
	bigMaxU64 = new(big.Float).SetUint64(math.MaxUint64)
)

func truncBig(f float64) *big.Float {
	t := math.Trunc(f)
	return new(big.Float).SetPrec(128).SetFloat64(t)
}

// wantInt: (value, ok, judged)
func wantInt(v *ref.Value) (int64, bool, bool) {
	switch v.K {
	case ref.Int:
		return v.I, true, true
	case ref.Uint:
		if v.U <= math.MaxInt64 {
			return int64(v.U), true, true
		}
		return 0, false, true
	case ref.Float:
		t := truncBig(v.F)
		if t.Cmp(bigMinI64) >= 0 && t.Cmp(bigMaxI64) <= 0 {
			i, _ := t.Int64()
			return i, true, true
		}
		return 0, false, true
	}
	return 0, false, true
}

func wantUint(v *ref.Value) (uint64, bool, bool) {
	switch v.K {
	case ref.Uint:
		return v.U, true, true
	case ref.Int:
		if v.I >= 0 {
			return uint64(v.I), true, true
		}
		return 0, false, true
	case ref.Float:
		if v.F > -1 && v.F < 0 {
			return 0, false, false // statement ambiguous: 0 or error
		}
		t := truncBig(v.F)
		if t.Sign() >= 0 && t.Cmp(bigMaxU64) <= 0 {
			u, _ := t.Uint64()
			return u, true, true
		}
		return 0, false, true
	}
	return 0, false, true
}

func wantFloat(v *ref.Value) (float64, bool) {
	switch v.K {
	case ref.Float:
		return v.F, true
	case ref.Int:
		return float64(v.I), true
	case ref.Uint:
		return float64(v.U), true
	}
	return 0, false
}

func isNum(v *ref.Value) bool { return v.K == ref.Int || v.K == ref.Uint || v.K == ref.Float }

func numText(v *ref.Value) string {
	switch v.K {
	case ref.Int:
		return "int:" + strconv.FormatInt(v.I, 10)
	case ref.Uint:
		return "uint:" + strconv.FormatUint(v.U, 10)
	case ref.Float:
		return "float:" + strconv.FormatFloat(v.F, 'g', -1, 64)
	}
	return v.K.String()
}

// convCheck returns the first disagreement of Iter.Int/Uint/Float with the conversion oracle ("" if none).
func convCheck(it *simdjson.Iter, v *ref.Value) string {
	if !isNum(v) {
		return ""
	}
	gi, ei := it.Int()
	if wi, ok, _ := wantInt(v); ok != (ei == nil) || (ok && gi != wi) {
		return fmt.Sprintf("Iter.Int() on %s = %d,%v; want %d ok=%v", numText(v), gi, ei, wi, ok)
	}
	gu, eu := it.Uint()
	if wu, ok, judged := wantUint(v); judged && (ok != (eu == nil) || (ok && gu != wu)) {
		return fmt.Sprintf("Iter.Uint() on %s = %d,%v; want %d ok=%v", numText(v), gu, eu, wu, ok)
	}
	gf, ef := it.Float()
	if wf, _ := wantFloat(v); ef != nil || math.Float64bits(gf) != math.Float64bits(wf) {
		return fmt.Sprintf("Iter.Float() on %s = %v,%v; want %v", numText(v), gf, ef, wf)
	}
	return ""
}

// c12Scalar checks Iter.Int/Uint/Float on one numeric value.
func (w *W) c12Scalar(it *simdjson.Iter, v *ref.Value, cs *ev.Case) {
	if !isNum(v) {
		return
	}
	w.Eval(3)
	gi, ei := it.Int()
	if wi, ok, _ := wantInt(v); ok != (ei == nil) || (ok && gi != wi) {
		w.Violation("C12/Iter.Int/"+numText(v), fmt.Sprintf("Iter.Int() on %s = %d,%v; want %d ok=%v", numText(v), gi, ei, wi, ok), cs)
	}
	gu, eu := it.Uint()
	if wu, ok, judged := wantUint(v); judged && (ok != (eu == nil) || (ok && gu != wu)) {
		w.Violation("C12/Iter.Uint/"+numText(v), fmt.Sprintf("Iter.Uint() on %s = %d,%v; want %d ok=%v", numText(v), gu, eu, wu, ok), cs)
	} else if !judged {
		w.Count("uint_of_(-1,0)_not_judged", 1)
	}
	gf, ef := it.Float()
	if wf, _ := wantFloat(v); ef != nil || math.Float64bits(gf) != math.Float64bits(wf) {
		w.Violation("C12/Iter.Float/"+numText(v), fmt.Sprintf("Iter.Float() on %s = %v,%v; want %v", numText(v), gf, ef, wf), cs)
	}
}

// modelFind mirrors the documented FindPath semantics on the model.
// result: 0 found, 1 ErrPathNotFound, 2 other error.
func modelFind(o *ref.Value, path []string) (*ref.Value, int) {
	cur := o
	for i, k := range path {
		if cur.K != ref.Object {
			return nil, 2
		}
		var found *ref.Value
		for j, key := range cur.Keys {
			if string(key) == k {
				found = cur.Vals[j]
				break
			}
		}
		if found == nil {
			return nil, 1
		}
		if i == len(path)-1 {
			return found, 0
		}
		cur = found
	}
	return nil, 1
}

func valueOfElement(e *simdjson.Element) (*ref.Value, error) {
	if e.Type != e.Iter.Type() {
		return nil, fmt.Errorf("Element.Type %v != Iter.Type() %v", e.Type, e.Iter.Type())
	}
	return walk.AdvValue(e.Iter)
}

func (w *W) c12Object(pj *simdjson.ParsedJson, l Loc, mo *ref.Value, cs *ev.Case, r *gen.Rand, docKey string) {
	getObj := func() (*simdjson.Object, error) {
		it, err := locateInto(pj, l)
		if err != nil {
			return nil, err
		}
		return it.Object(nil)
	}
	bad := func(api, what, detail string) {
		w.Violation("C12/"+api+"/"+what, detail+" [object at "+l.String()+" of "+docKey+"]", cs)
	}
	// FindKey: present keys (first member wins), absent keys
	seen := map[string]bool{}
	for i, k := range mo.Keys {
		if seen[string(k)] {
			continue
		}
		seen[string(k)] = true
		o, err := getObj()
		if err != nil {
			bad("locate", "object", err.Error())
			return
		}
		w.Eval(1)
		e := o.FindKey(string(k), c12Elem(i))
		if e == nil {
			bad("FindKey", "present-key-nil", fmt.Sprintf("FindKey(%q) = nil, the object has that key at member %d", k, i))
			continue
		}
		if e.Name != string(k) {
			bad("FindKey", "name", fmt.Sprintf("FindKey(%q) returned Name %q", k, e.Name))
		}
		got, err := valueOfElement(e)
		if err != nil {
			bad("FindKey", "value-error", fmt.Sprintf("FindKey(%q): reading the element: %v", k, err))
			continue
		}
		if d := ref.Diff(mo.Vals[i], got); d != "" {
			bad("FindKey", "value", fmt.Sprintf("FindKey(%q) is not the first member of that name: %s", k, d))
		}
	}
	// the same Object value asked again and again (a lookup is a read: what one call found must not
	// move where the next one starts): all keys last to first, an absent key, then first to last
	if len(mo.Keys) >= 2 && len(mo.Keys) <= 40 {
		if o, err := getObj(); err == nil {
			firstOf := map[string]int{}
			for i, k := range mo.Keys {
				if _, ok := firstOf[string(k)]; !ok {
					firstOf[string(k)] = i
				}
			}
			ask := func(k []byte, phase string) bool {
				w.Eval(1)
				e := o.FindKey(string(k), nil)
				i := firstOf[string(k)]
				if e == nil {
					bad("FindKey", "same-handle/present-key-nil", fmt.Sprintf("FindKey(%q) = nil on an Object value that answered other lookups before (%s); the object has that key at member %d", k, phase, i))
					return false
				}
				got, err := valueOfElement(e)
				if err != nil {
					bad("FindKey", "same-handle/value-error", fmt.Sprintf("FindKey(%q) (%s): %v", k, phase, err))
					return false
				}
				if d := ref.Diff(mo.Vals[i], got); d != "" {
					bad("FindKey", "same-handle/value", fmt.Sprintf("FindKey(%q) on an Object value that answered other lookups before (%s) is not the first member of that name: %s", k, phase, d))
					return false
				}
				return true
			}
			ok := true
			for i := len(mo.Keys) - 1; i >= 0 && ok; i-- {
				ok = ask(mo.Keys[i], "keys asked last to first")
			}
			if ok {
				if e := o.FindKey("\x00absent", nil); e != nil {
					bad("FindKey", "same-handle/absent-key-found", fmt.Sprintf("FindKey of an absent key returned %q", e.Name))
				}
				for i := 0; i < len(mo.Keys) && ok; i++ {
					ok = ask(mo.Keys[i], "keys asked first to last after a full round and a miss")
				}
			}
			w.Count("objects_with_lookup_sequences_on_one_handle", 1)
		}
	}
	absent := []string{"\x00absent", "", "zz", "absent-key-that-is-long"}
	for _, k := range mo.Keys {
		if len(k) > 0 {
			alt := append([]byte{}, k...)
			alt[len(alt)-1] ^= 1
			absent = append(absent, string(alt)) // equal length
		}
	}
	for _, k := range absent {
		if seen[k] {
			continue
		}
		o, err := getObj()
		if err != nil {
			return
		}
		w.Eval(1)
		if e := o.FindKey(k, c12Elem(len(k))); e != nil {
			bad("FindKey", "absent-key-found", fmt.Sprintf("FindKey(%q) returned %q although no member has that key", k, e.Name))
		}
		if _, err := o.FindPath(nil, k); !errors.Is(err, simdjson.ErrPathNotFound) {
			bad("FindPath", "absent-key", fmt.Sprintf("FindPath(%q) err=%v, want ErrPathNotFound", k, err))
		}
	}
	// FindPath: every key path below this object (bounded), plus absent and non-object continuations
	type pq struct {
		v    *ref.Value
		path []string
	}
	queue := []pq{{mo, nil}}
	paths := 0
	for len(queue) > 0 && paths < 60 {
		p := queue[0]
		queue = queue[1:]
		if p.v.K != ref.Object {
			continue
		}
		seenK := map[string]bool{}
		for i, k := range p.v.Keys {
			if seenK[string(k)] {
				continue
			}
			seenK[string(k)] = true
			path := append(append([]string{}, p.path...), string(k))
			paths++
			w.c12Path(getObj, mo, path, bad)
			// continuation through this member
			w.c12Path(getObj, mo, append(append([]string{}, path...), "\x00absent"), bad)
			if len(path) < 5 {
				queue = append(queue, pq{p.v.Vals[i], path})
			}
		}
	}
	// ForEach with nil filter and with key filters (unique keys only)
	unique := len(seen) == len(mo.Keys)
	check := func(filter map[string]struct{}, label string) {
		o, err := getObj()
		if err != nil {
			return
		}
		type cb struct {
			key string
			v   *ref.Value
			err error
		}
		var got []cb
		ferr := walk.Guard(func() error {
			return o.ForEach(func(key []byte, i simdjson.Iter) {
				v, e := walk.AdvValue(i)
				got = append(got, cb{string(key), v, e})
			}, filter)
		})
		w.Eval(1)
		var want []int
		for i, k := range mo.Keys {
			if len(filter) == 0 {
				want = append(want, i)
			} else if _, ok := filter[string(k)]; ok {
				want = append(want, i)
			}
		}
		fdesc := label
		if ferr != nil {
			bad("Object.ForEach", "error/"+fdesc, fmt.Sprintf("ForEach(filter %s) returned %v; object keys %s", label, ferr, keysText(mo)))
			return
		}
		if len(got) != len(want) {
			bad("Object.ForEach", "count/"+fdesc, fmt.Sprintf("ForEach(filter %s) called back %d members, want %d; keys %s, called keys %v", label, len(got), len(want), keysText(mo), cbKeys(got, func(c cb) string { return c.key })))
			return
		}
		for j, wi := range want {
			if got[j].key != string(mo.Keys[wi]) {
				bad("Object.ForEach", "key/"+fdesc, fmt.Sprintf("ForEach(filter %s) callback %d has key %q, want %q", label, j, got[j].key, mo.Keys[wi]))
				return
			}
			if got[j].err != nil {
				bad("Object.ForEach", "value-error/"+fdesc, fmt.Sprintf("ForEach(filter %s) callback %d (%q): %v", label, j, got[j].key, got[j].err))
				return
			}
			if d := ref.Diff(mo.Vals[wi], got[j].v); d != "" {
				bad("Object.ForEach", "value/"+fdesc, fmt.Sprintf("ForEach(filter %s) callback %d (%q) got another member's value: %s", label, j, got[j].key, d))
				return
			}
		}
	}
	check(nil, "nil")
	check(map[string]struct{}{}, "empty")
	if unique && len(mo.Keys) > 0 {
		n := len(mo.Keys)
		if n <= 6 {
			for mask := 1; mask < 1<<uint(n); mask++ {
				f := map[string]struct{}{}
				for i := 0; i < n; i++ {
					if mask>>uint(i)&1 == 1 {
						f[string(mo.Keys[i])] = struct{}{}
					}
				}
				check(f, fmt.Sprintf("subset-%0*b-of-%d", n, mask, n))
			}
			w.Count("foreach_filter_all_subsets_objects", 1)
		} else {
			for t := 0; t < 12; t++ {
				f := map[string]struct{}{}
				mask := r.Uint64()
				if t < n {
					mask = 1 << uint(t) // single keys: first, middle, last...
				}
				desc := ""
				for i := 0; i < n; i++ {
					if mask>>uint(i%64)&1 == 1 {
						f[string(mo.Keys[i])] = struct{}{}
						desc += "1"
					} else {
						desc += "0"
					}
				}
				if len(f) > 0 {
					if len(desc) > 40 {
						desc = fmt.Sprintf("%dof%d-%x", len(f), n, gen.Hash64([]byte(desc)))
					}
					check(f, "subset-"+desc)
				}
			}
		}
		// a filter naming an absent key too
		f := map[string]struct{}{string(mo.Keys[n-1]): {}, "\x00absent": {}}
		check(f, "last-plus-absent")
	}
	// Map and Parse/Lookup
	o, err := getObj()
	if err == nil {
		m, merr := o.Map(nil)
		w.Eval(1)
		if merr != nil {
			bad("Object.Map", "error", merr.Error())
		} else if d := walk.CompareIface(mo, m); d != "" {
			bad("Object.Map", "value", d)
		}
	}
	it, err := locateInto(pj, l)
	if err == nil {
		got, gerr := walk.ElemsValue(it)
		w.Eval(1)
		if gerr != nil {
			bad("Object.Parse", "error", gerr.Error())
		} else if d := ref.Diff(mo, got); d != "" {
			bad("Object.Parse", "value", d)
		}
	}
}

// c12Elem returns nil or a recycled Element (used before for other keys, objects and
// documents): a destination handed back in must be filled completely.
var c12ElemPool [4]simdjson.Element

func c12Elem(i int) *simdjson.Element {
	if i%2 == 0 {
		return nil
	}
	return &c12ElemPool[(i/2)%len(c12ElemPool)]
}

func cbKeys[T any](l []T, f func(T) string) []string {
	var out []string
	for _, x := range l {
		out = append(out, f(x))
	}
	return out
}

func keysText(o *ref.Value) string {
	var ks []string
	for _, k := range o.Keys {
		ks = append(ks, strconv.Quote(string(k)))
		if len(ks) > 12 {
			ks = append(ks, "...")
			break
		}
	}
	return "[" + strings.Join(ks, ",") + "]"
}

func (w *W) c12Path(getObj func() (*simdjson.Object, error), mo *ref.Value, path []string, bad func(api, what, detail string)) {
	o, err := getObj()
	if err != nil {
		return
	}
	want, res := modelFind(mo, path)
	e, ferr := o.FindPath(c12Elem(len(path)), path...)
	w.Eval(1)
	ptxt := strconv.Quote(strings.Join(path, "/"))
	switch res {
	case 0:
		if ferr != nil {
			bad("FindPath", "present-path-error", fmt.Sprintf("FindPath(%s) err=%v, the path exists", ptxt, ferr))
			return
		}
		got, err := valueOfElement(e)
		if err != nil {
			bad("FindPath", "value-error", fmt.Sprintf("FindPath(%s): %v", ptxt, err))
			return
		}
		if d := ref.Diff(want, got); d != "" {
			bad("FindPath", "value", fmt.Sprintf("FindPath(%s) returned another value: %s", ptxt, d))
		}
	case 1:
		if !errors.Is(ferr, simdjson.ErrPathNotFound) {
			bad("FindPath", "absent", fmt.Sprintf("FindPath(%s) err=%v, want ErrPathNotFound", ptxt, ferr))
		}
	case 2:
		if ferr == nil || errors.Is(ferr, simdjson.ErrPathNotFound) {
			bad("FindPath", "through-non-object", fmt.Sprintf("FindPath(%s) err=%v, the path runs through a non-object: want an error other than ErrPathNotFound", ptxt, ferr))
		}
	}
}

func (w *W) c12Array(pj *simdjson.ParsedJson, l Loc, ma *ref.Value, cs *ev.Case, docKey string) {
	getArr := func() *simdjson.Array {
		it, err := locateInto(pj, l)
		if err != nil {
			return nil
		}
		a, err := it.Array(nil)
		if err != nil {
			return nil
		}
		return a
	}
	arrayAccessors(getArr, ma, func() { w.Eval(1) }, func(api, detail string) {
		w.Violation("C12/"+api+"/"+nosp(arrDesc(ma)), detail+" [array at "+l.String()+" of "+docKey+"]", cs)
	})
}

func arrDesc(ma *ref.Value) string {
	var parts []string
	for i, e := range ma.A {
		if i >= 6 {
			parts = append(parts, "...")
			break
		}
		if isNum(e) {
			parts = append(parts, numText(e))
		} else {
			parts = append(parts, e.K.String())
		}
	}
	return "[" + strings.Join(parts, " ") + "]"
}

// arrayAccessors judges the typed and bulk accessors of one array against its model:
// AsFloat, AsInteger, AsUint64, AsString, AsStringCvt, Interface, FirstType.
func arrayAccessors(getArr func() *simdjson.Array, ma *ref.Value, eval func(), bad func(api, detail string)) {
	desc := func() string { return arrDesc(ma) }
	// AsFloat
	if a := getArr(); a != nil {
		eval()
		got, err := a.AsFloat()
		ok := true
		var want []float64
		for _, e := range ma.A {
			f, o := wantFloat(e)
			if !o {
				ok = false
				break
			}
			want = append(want, f)
		}
		if ok != (err == nil) {
			bad("Array.AsFloat", fmt.Sprintf("AsFloat on %s: err=%v, want ok=%v", desc(), err, ok))
		} else if ok {
			if len(got) != len(want) {
				bad("Array.AsFloat", fmt.Sprintf("AsFloat on %s: %d values, want %d", desc(), len(got), len(want)))
			} else {
				for i := range want {
					if math.Float64bits(got[i]) != math.Float64bits(want[i]) {
						bad("Array.AsFloat", fmt.Sprintf("AsFloat on %s: element %d = %v, want %v", desc(), i, got[i], want[i]))
						break
					}
				}
			}
		}
	}
	// AsInteger
	if a := getArr(); a != nil {
		eval()
		got, err := a.AsInteger()
		ok := true
		var want []int64
		for _, e := range ma.A {
			if !isNum(e) {
				ok = false
				break
			}
			v, o, _ := wantInt(e)
			if !o {
				ok = false
				break
			}
			want = append(want, v)
		}
		if ok != (err == nil) {
			bad("Array.AsInteger", fmt.Sprintf("AsInteger on %s: err=%v, want ok=%v", desc(), err, ok))
		} else if ok && !equalI64(got, want) {
			bad("Array.AsInteger", fmt.Sprintf("AsInteger on %s = %v, want %v", desc(), clipI64(got), clipI64(want)))
		}
	}
	// AsUint64
	if a := getArr(); a != nil {
		ok, judged := true, true
		var want []uint64
		for _, e := range ma.A {
			if !isNum(e) {
				ok = false
				break
			}
			v, o, j := wantUint(e)
			if !j {
				judged = false
				break
			}
			if !o {
				ok = false
				break
			}
			want = append(want, v)
		}
		if judged {
			eval()
			got, err := a.AsUint64()
			if ok != (err == nil) {
				bad("Array.AsUint64", fmt.Sprintf("AsUint64 on %s: err=%v, want ok=%v", desc(), err, ok))
			} else if ok && !equalU64(got, want) {
				bad("Array.AsUint64", fmt.Sprintf("AsUint64 on %s = %v, want %v", desc(), clipU64(got), clipU64(want)))
			}
		}
	}
	// AsString
	if a := getArr(); a != nil {
		eval()
		got, err := a.AsString()
		ok := true
		var want []string
		for _, e := range ma.A {
			if e.K != ref.String {
				ok = false
				break
			}
			want = append(want, string(e.S))
		}
		if ok != (err == nil) {
			bad("Array.AsString", fmt.Sprintf("AsString on %s: err=%v, want ok=%v", desc(), err, ok))
		} else if ok && !equalStr(got, want) {
			bad("Array.AsString", fmt.Sprintf("AsString on %s differs from the elements", desc()))
		}
	}
	// AsStringCvt
	if a := getArr(); a != nil {
		eval()
		got, err := a.AsStringCvt()
		ok := true
		var want []string
		for _, e := range ma.A {
			switch e.K {
			case ref.String:
				want = append(want, string(e.S))
			case ref.Int:
				want = append(want, strconv.FormatInt(e.I, 10))
			case ref.Uint:
				want = append(want, strconv.FormatUint(e.U, 10))
			case ref.Float:
				want = append(want, jsonFloat(e.F))
			case ref.True:
				want = append(want, "true")
			case ref.False:
				want = append(want, "false")
			case ref.Null:
				want = append(want, "null")
			default:
				ok = false
			}
			if !ok {
				break
			}
		}
		if ok != (err == nil) {
			bad("Array.AsStringCvt", fmt.Sprintf("AsStringCvt on %s: err=%v, want ok=%v", desc(), err, ok))
		} else if ok && !equalStr(got, want) {
			bad("Array.AsStringCvt", fmt.Sprintf("AsStringCvt on %s = %.200q, want %.200q", desc(), got, want))
		}
	}
	// Interface
	if a := getArr(); a != nil {
		eval()
		got, err := a.Interface()
		if err != nil {
			bad("Array.Interface", err.Error())
		} else if d := walk.CompareIface(ma, got); d != "" {
			bad("Array.Interface", d)
		}
	}
	// FirstType
	if a := getArr(); a != nil {
		ft := a.FirstType()
		want := simdjson.TypeNone
		if len(ma.A) > 0 {
			want = kindType(ma.A[0])
		}
		if ft != want {
			bad("Array.FirstType", fmt.Sprintf("FirstType()=%v want %v", ft, want))
		}
	}
}

func kindType(v *ref.Value) simdjson.Type {
	switch v.K {
	case ref.Null:
		return simdjson.TypeNull
	case ref.True, ref.False:
		return simdjson.TypeBool
	case ref.Int:
		return simdjson.TypeInt
	case ref.Uint:
		return simdjson.TypeUint
	case ref.Float:
		return simdjson.TypeFloat
	case ref.String:
		return simdjson.TypeString
	case ref.Array:
		return simdjson.TypeArray
	case ref.Object:
		return simdjson.TypeObject
	}
	return simdjson.TypeNone
}

// jsonFloat renders like encoding/json (the documented StringCvt format; C18 checks the format itself).
func jsonFloat(f float64) string {
	abs := math.Abs(f)
	if abs != 0 && (abs < 1e-6 || abs >= 1e21) {
		b := strconv.AppendFloat(nil, f, 'e', -1, 64)
		n := len(b)
		if n >= 4 && b[n-4] == 'e' && b[n-3] == '-' && b[n-2] == '0' {
			b[n-2] = b[n-1]
			b = b[:n-1]
		}
		return string(b)
	}
	return strconv.FormatFloat(f, 'f', -1, 64)
}

func equalI64(a, b []int64) bool {
	if len(a) != len(b) {
		return false
	}
	for i := range a {
		if a[i] != b[i] {
			return false
		}
	}
	return true
}
func equalU64(a, b []uint64) bool {
	if len(a) != len(b) {
		return false
	}
	for i := range a {
		if a[i] != b[i] {
			return false
		}
	}
	return true
}
func equalStr(a, b []string) bool {
	if len(a) != len(b) {
		return false
	}
	for i := range a {
		if a[i] != b[i] {
			return false
		}
	}
	return true
}
func clipI64(a []int64) []int64 {
	if len(a) > 8 {
		return a[:8]
	}
	return a
}
func clipU64(a []uint64) []uint64 {
	if len(a) > 8 {
		return a[:8]
	}
	return a
}

func (w *W) c12Judge(st *c12State, g string, doc []byte) {
	st.idx++
	if !w.mine(st.idx) {
		return
	}
	cs := &ev.Case{Gen: g, Input: doc}
	w.Journal(cs)
	if w.Skip() {
		return
	}
	a := ref.Analyze(doc)
	if a.Class != ref.MustAccept || a.Info.MaxDepth > 500 {
		w.Count("skipped_docs", 1)
		return
	}
	st.n++
	cfg := w.configs()[st.n%len(w.configs())]
	pj, err, pan := w.parseGuarded(doc, cfg, false, st.n%64 == 0)
	if pan != nil || err != nil {
		w.Count("valid_doc_rejected_by_parse_(C01)", 1)
		return
	}
	docKey := q(doc)
	if len(doc) > 60 {
		docKey = fmt.Sprintf("%s-%016x", genClass(g), gen.Hash64(doc))
	}
	roots := []*ref.Value{a.Value}
	r := w.rng("c12", st.n)
	perr := walk.Guard(func() error {
		locs := allLocs(roots, 3000)
		objs, arrs, nums := 0, 0, 0
		for _, l := range locs {
			v := modelAt(roots, l)
			switch {
			case v.K == ref.Object && objs < 25:
				objs++
				if len(v.Keys) >= 2 {
					w.Nontrivial(gen.Hash64(doc, []byte(l.String())))
				}
				w.c12Object(pj, l, v, cs, r, docKey)
			case v.K == ref.Array && arrs < 25:
				arrs++
				w.c12Array(pj, l, v, cs, docKey)
			case isNum(v) && nums < 200:
				nums++
				it, err := locateInto(pj, l)
				if err == nil {
					w.c12Scalar(&it, v, cs)
				}
				// and through an iterator whose tape ends right after the value
				if len(l.Path) > 0 {
					if sit, err := locateScoped(pj, l, nums%2 == 0, roots); err == nil {
						if d := convCheck(&sit, v); d != "" {
							w.Violation("C12/scoped-iterator/"+firstWords(d, 1)+"/"+numText(v), "on a single-value iterator (AdvanceIter/NextElementBytes/FindKey): "+d, cs)
						}
						w.Eval(3)
					}
				}
			}
		}
		// FindElement from a fresh iterator and from the root iterator
		if a.Value.K == ref.Object {
			for i, k := range a.Value.Keys {
				if i > 8 {
					break
				}
				first := true
				for j := 0; j < i; j++ {
					if string(a.Value.Keys[j]) == string(k) {
						first = false
					}
				}
				if !first {
					continue
				}
				for variant := 0; variant < 2; variant++ {
					it := pj.Iter()
					if variant == 1 {
						it.Advance()
					}
					w.Eval(1)
					e, err := it.FindElement(nil, string(k))
					if err != nil {
						w.Violation("C12/FindElement/error/"+docKey, fmt.Sprintf("FindElement(%q) from the root: %v", k, err), cs)
						continue
					}
					got, err := valueOfElement(e)
					if err != nil || ref.Diff(a.Value.Vals[i], got) != "" {
						w.Violation("C12/FindElement/value/"+docKey, fmt.Sprintf("FindElement(%q) returned the wrong value (%v)", k, err), cs)
					}
				}
			}
			it := pj.Iter()
			if _, err := it.FindElement(nil, "\x00absent"); !errors.Is(err, simdjson.ErrPathNotFound) {
				w.Violation("C12/FindElement/absent/"+docKey, fmt.Sprintf("FindElement(absent) err=%v, want ErrPathNotFound", err), cs)
			}
		} else {
			it := pj.Iter()
			w.Eval(1)
			if _, err := it.FindElement(nil, "a"); err == nil || errors.Is(err, simdjson.ErrPathNotFound) {
				w.Count("findelement_on_array_root_returned_"+fmt.Sprint(err)+"_(not_judged)", 1)
			}
		}
		return nil
	})
	if perr != nil {
		w.Violation("C12/panic/"+docKey, fmt.Sprintf("lookup API panicked: %v", perr), cs)
	}
	if w.WantSample() {
		w.Sample(map[string]interface{}{"gen": g, "doc": q(doc)})
	}
}

func runC12(w *W) {
	st := &c12State{}
	th := w.thorough()
	judge := func(g string, doc []byte) { w.c12Judge(st, g, doc) }
	// boundary numbers as array elements / object values (int, uint, float spellings)
	var lits []string
	p63 := new(big.Int).Lsh(big.NewInt(1), 63)
	p64 := new(big.Int).Lsh(big.NewInt(1), 64)
	p53 := new(big.Int).Lsh(big.NewInt(1), 53)
	for _, base := range []*big.Int{p63, p64, p53, big.NewInt(0), big.NewInt(1)} {
		for d := -3; d <= 3; d++ {
			v := new(big.Int).Add(base, big.NewInt(int64(d)))
			for _, s := range []string{v.String(), "-" + v.String()} {
				if strings.HasPrefix(s, "--") {
					s = s[2:]
				}
				lits = append(lits, s, s+".0", s+".5", s+"e0")
			}
		}
	}
	lits = append(lits, "0.5", "-0.5", "0.9999", "-0.9999", "-1.0", "-1.5", "1e300", "-1e300", "5e-324", "-5e-324", "1e19", "1.8446744073709552e19", "1.8446744073709550e19", "9.223372036854775e18", "9.223372036854776e18", "-9.223372036854776e18", "-9.223372036854777e18", "9223372036854775295.0", "9223372036854775296.0", "1e18", "-0.0", "0.0", "2.5", "-2.5", "1e2", "123456789.987")
	for i, l := range lits {
		judge("boundary-num", []byte("["+l+"]"))
		judge("boundary-num", []byte(`{"v":`+l+`,"w":[`+l+`,1]}`))
		if i+2 < len(lits) {
			judge("boundary-num-arr", []byte("["+l+","+lits[i+1]+","+lits[i+2]+"]"))
		}
	}
	// homogeneous and mixed arrays
	r := w.rng("c12arr")
	nArr := 15000
	if th {
		nArr = 400000
	}
	for k := 0; k < nArr; k++ {
		rr := r.Split()
		n := rr.Intn(8)
		var parts []string
		kind := rr.Intn(8)
		for i := 0; i < n; i++ {
			kk := kind
			if kind >= 6 {
				kk = rr.Intn(6)
			}
			switch kk {
			case 0:
				parts = append(parts, strconv.FormatInt(int64(rr.Uint64()>>uint(rr.Intn(64))), 10))
			case 1:
				parts = append(parts, strconv.FormatUint(rr.Uint64()>>uint(rr.Intn(4)), 10))
			case 2:
				parts = append(parts, lits[rr.Intn(len(lits))])
			case 3:
				parts = append(parts, string(gen.StringLit(rr, rr.Intn(12), rr.Bool())))
			case 4:
				parts = append(parts, []string{"true", "false", "null"}[rr.Intn(3)])
			default:
				parts = append(parts, string(gen.NumberLit(rr, false)))
			}
		}
		if kind == 7 && n > 0 && rr.Bool() {
			parts[rr.Intn(n)] = []string{"[]", "{}", `{"a":1}`, "[1]"}[rr.Intn(4)]
		}
		judge("array", []byte("["+strings.Join(parts, ",")+"]"))
	}
	// structured documents with objects: unique keys (filters) and duplicate keys (FindKey)
	nDoc := 10000
	if th {
		nDoc = 250000
	}
	for k := 0; k < nDoc; k++ {
		rr := r.Split()
		cfg := gen.DocCfg{Size: []int{30, 120, 400, 1500, 9000}[k%5], MaxDepth: 1 + k%5, MaxFan: 2 + k%7, WS: k % 2, Esc: 20, DupKeys: k%3 == 0, Unique: k%3 != 0, OnlyObj: k%4 != 0}
		judge("doc", gen.Doc(rr, cfg))
	}
	for _, d := range gen.Corpus(400 << 10) {
		judge("corpus:"+d.Name, d.Data)
	}
	// key lengths around every power of two (length-indexed tables, masks and shifts in
	// lookups and filters): members whose keys differ only in length, or only in the last byte
	lens := []int{0, 1, 2, 3, 7, 8, 9, 15, 16, 17, 31, 32, 33, 62, 63, 64, 65, 66, 100, 127, 128, 129, 200, 255, 256, 257, 511, 512, 513, 1000, 4095, 4096, 4097, 65535, 65536, 65537}
	for i := range lens {
		for _, same := range []bool{false, true} {
			var b bytes.Buffer
			b.WriteByte('{')
			for j := 0; j < 5; j++ {
				l := lens[(i+j)%len(lens)]
				if same {
					l = lens[i]
				}
				key := strings.Repeat("k", l)
				if same && l > 0 {
					key = key[:l-1] + string(rune('a'+j))
				} else if same && j > 0 {
					break
				}
				if j > 0 {
					b.WriteByte(',')
				}
				fmt.Fprintf(&b, `"%s":%s`, key, []string{"1", `[2,"x"]`, `"v"`, `{"in":true}`, "null"}[j])
			}
			b.WriteByte('}')
			judge("key-lengths", b.Bytes())
			judge("key-lengths", []byte(`{"outer":`+b.String()+`,"z":[`+b.String()+`]}`))
		}
	}
}

func replayC12(w *W, cs *ev.Case) {
	w.Out.NShards = 1
	w.c12Judge(&c12State{}, cs.Gen, cs.Input)
}
