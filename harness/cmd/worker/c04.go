package main

import (
	"bytes"
	"fmt"
	"strings"

	simdjson "github.com/minio/simdjson-go"

	"verifharness/ev"
	"verifharness/gen"
	"verifharness/ref"
	"verifharness/walk"
)

func init() { register("C04", runC04, replayC04) }

type c04State struct {
	n       int
	idx     int
	wsn     int
	guarded bool
}

// c04Judge parses doc (string-focused) and compares every exposed string,
// key or value, with the reference unescape, plus the tape length words.
// layout tags the (length, offset) class for the distinct count.
func (w *W) c04Judge(st *c04State, g string, doc []byte, tail bool) {
	w.c04JudgeOne(st, g, doc, tail)
	// every other document again with insignificant white space in front of it (and sometimes
	// behind): the document, and with it every in-place string, then starts at an offset into the
	// caller's buffer (Parse trims; offsets on the tape are relative to what it trimmed to)
	st.wsn++
	if st.wsn%2 == 0 {
		lead := []int{1, 2, 3, 7, 31, 32, 33, 63, 64, 65}[(st.wsn/2)%10]
		b := make([]byte, 0, len(doc)+lead+3)
		for i := 0; i < lead; i++ {
			b = append(b, " \t\r\n"[(i+st.wsn)%4])
		}
		b = append(b, doc...)
		for i := 0; i < (st.wsn/2)%4; i++ {
			b = append(b, " \n\t"[i%3])
		}
		w.c04JudgeOne(st, g+"+outer-ws", b, tail)
	}
}

func (w *W) c04JudgeOne(st *c04State, g string, doc []byte, tail bool) {
	st.idx++
	if !w.mine(st.idx) {
		return
	}
	cs := &ev.Case{Gen: g, Input: doc, A: int64(b2i(tail))}
	w.Journal(cs)
	if w.Skip() {
		return
	}
	a := ref.Analyze(doc)
	if a.Class != ref.MustAccept {
		w.Count("generator_produced_non_accept_class_skipped", 1)
		w.SetAdd("non_accept_generators", g)
		return
	}
	st.n++
	in := doc
	if tail {
		// end-aligned guard mapping: the last byte of the input is the last
		// byte before an inaccessible page
		if reg := w.guardRegion(len(doc) + 64); reg != nil {
			in = reg.End(doc)
			w.Count("inputs_in_end_aligned_guard_mapping", 1)
		}
	}
	want := []*ref.Value{a.Value}
	var first []byte
	for ci, cfg := range w.configsAlt(st.n) {
		fresh := (st.n+ci)%64 == 0
		pj, err, pan := w.parseGuarded(in, cfg, false, fresh)
		if pan != nil {
			w.Violation("C04/parse-panic/"+g, fmt.Sprintf("Parse panicked (%s): %v doc=%s", cfg, pan, q(doc)), cs)
			continue
		}
		if err != nil {
			w.Count("valid_doc_rejected_by_parse_(C01)", 1)
			continue
		}
		got, werr := walk.Into(pj)
		w.Eval(a.Info.Strings)
		diff := ""
		if werr != nil {
			diff = "error: " + werr.Error()
		} else if len(got) != 1 {
			diff = fmt.Sprintf("%d roots", len(got))
		} else {
			diff = ref.Diff(want[0], got[0])
		}
		if diff == "" {
			// keys through NextElementBytes as well (object documents)
			got2, werr2 := walk.Adv(pj)
			if werr2 != nil {
				diff = "Advance route error: " + werr2.Error()
			} else if len(got2) != 1 {
				diff = "Advance route: roots"
			} else {
				diff = ref.Diff(want[0], got2[0])
			}
		}
		if diff == "" {
			diff = c04LengthWords(pj, a.Value)
		}
		if diff != "" {
			min := doc
			if st.n < 1<<30 && len(doc) <= 1<<14 {
				c := cfg
				min = minimize(doc, func(b []byte) bool {
					aa := ref.Analyze(b)
					if aa.Class != ref.MustAccept {
						return false
					}
					p, e, pn := w.parseMin(b, c, false)
					if pn != nil || e != nil {
						return false
					}
					gg, ee := walk.Into(p)
					if ee != nil || len(gg) != 1 {
						return true
					}
					return ref.Diff(aa.Value, gg[0]) != "" || c04LengthWords(p, aa.Value) != ""
				}, 1200)
			}
			w.Violation("C04/string-mismatch/"+q(min), fmt.Sprintf("(%s) %s; doc=%s (from %s, %s)", cfg, diff, q(min), g, q(doc)), cs)
			continue
		}
		// copy and no-copy must expose the same bytes: both equal the reference, checked above.
		if first == nil {
			first = []byte{1}
		}
	}
	if a.Info.Escapes >= 1 || len(doc) >= 32 {
		w.Nontrivial(gen.Hash64(doc, []byte{byte(b2i(tail))}))
	}
	w.Count("strings_compared", a.Info.Strings*len(w.configs()))
	w.Count("escapes_decoded", a.Info.Escapes*len(w.configs()))
	if w.WantSample() {
		w.Sample(map[string]interface{}{"gen": g, "doc": q(doc), "strings": a.Info.Strings, "escapes": a.Info.Escapes, "guard_mapped": tail})
	}
}

// c04LengthWords checks that every string entry's length word equals the
// reference string's length (pre-order over the tape = pre-order of the tree).
func c04LengthWords(pj *simdjson.ParsedJson, v *ref.Value) string {
	var lens []int
	stack := []*ref.Value{v}
	for len(stack) > 0 {
		x := stack[len(stack)-1]
		stack = stack[:len(stack)-1]
		switch x.K {
		case ref.String:
			lens = append(lens, len(x.S))
		case ref.Array:
			for i := len(x.A) - 1; i >= 0; i-- {
				stack = append(stack, x.A[i])
			}
		case ref.Object:
			for i := len(x.Vals) - 1; i >= 0; i-- {
				stack = append(stack, x.Vals[i])
				stack = append(stack, &ref.Value{K: ref.String, S: x.Keys[i]})
			}
		}
	}
	k := 0
	for i := 0; i < len(pj.Tape); i++ {
		tag := byte(pj.Tape[i] >> 56)
		switch tag {
		case '"':
			if k >= len(lens) {
				return "more string entries on the tape than strings in the document"
			}
			if i+1 >= len(pj.Tape) || pj.Tape[i+1] != uint64(lens[k]) {
				return fmt.Sprintf("string #%d: tape length word %d, want %d", k, pj.Tape[i+1], lens[k])
			}
			k++
			i++
		case 'l', 'u', 'd':
			i++
		}
	}
	if k != len(lens) {
		return fmt.Sprintf("%d string entries on the tape, want %d", k, len(lens))
	}
	return ""
}

var escKinds = []string{`\"`, `\\`, `\/`, `\b`, `\f`, `\n`, `\r`, `\t`, `é`, `😀`, `\u0000`, `￿`}

func plainRun(n int, salt int) string {
	b := make([]byte, n)
	for i := range b {
		b[i] = "abcdefghijklmnopqrstuvwxyz0123456789 ,:{}[]"[(i*7+salt)%43]
	}
	return string(b)
}

func runC04(w *W) {
	st := &c04State{}
	th := w.thorough()
	r := w.rng("c04")
	judge := func(g string, doc []byte) { w.c04Judge(st, g, doc, false) }
	batchDoc := func(items []string, key bool) []byte {
		var b bytes.Buffer
		if key {
			b.WriteByte('{')
			for i, s := range items {
				if i > 0 {
					b.WriteByte(',')
				}
				b.WriteString(`"` + s + `":"` + s + `"`)
			}
			b.WriteByte('}')
		} else {
			b.WriteByte('[')
			for i, s := range items {
				if i > 0 {
					b.WriteByte(',')
				}
				b.WriteString(`"` + s + `"`)
			}
			b.WriteByte(']')
		}
		return b.Bytes()
	}
	// --- exhaustive: every non-surrogate code unit, lower and upper case hex
	var items []string
	flush := func(g string) {
		if len(items) > 0 {
			judge(g, batchDoc(items, false))
			judge(g+"-keys", batchDoc(items, true))
			items = items[:0]
		}
	}
	for cu := 0; cu < 0x10000; cu++ {
		if cu >= 0xD800 && cu <= 0xDFFF {
			continue
		}
		items = append(items, fmt.Sprintf(`\u%04x`, cu), fmt.Sprintf(`x\u%04Xy`, cu))
		if len(items) >= 1024 {
			flush("codeunits")
		}
	}
	flush("codeunits")
	if w.Out.Shard == 0 {
		w.Exhaustive("non-surrogate \\u code units x {lower,upper} hex", 63488*2)
	}
	// --- surrogate pairs: all (thorough) or a seed-selected 1/64 of the highs
	highs := 0
	for hi := 0xD800; hi <= 0xDBFF; hi++ {
		if !th && r.Intn(16) != 0 && hi != 0xD800 && hi != 0xDBFF {
			continue
		}
		highs++
		for lo := 0xDC00; lo <= 0xDFFF; lo++ {
			if lo%2 == 0 {
				items = append(items, fmt.Sprintf(`\u%04x\u%04X`, hi, lo))
			} else {
				items = append(items, fmt.Sprintf(`\u%04X\u%04x`, hi, lo))
			}
		}
		flush("surrogate-pairs")
	}
	if w.Out.Shard == 0 {
		w.Exhaustive("surrogate pairs (high surrogates covered x 1024 lows)", int64(highs)*1024)
	}
	// --- every raw byte >= 0x20 in valid UTF-8: all 1-, 2-, 3-byte sequences; 4-byte all (thorough) or sampled
	for c := 0x20; c < 0x80; c++ {
		if c != '"' && c != '\\' {
			items = append(items, string(rune(c)), "ab"+string(rune(c))+"cd")
		}
	}
	flush("utf8-1")
	for c := 0x80; c < 0x10000; c++ {
		if c >= 0xD800 && c <= 0xDFFF {
			continue
		}
		items = append(items, string(rune(c)))
		if len(items) >= 1024 {
			flush("utf8-2-3")
		}
	}
	flush("utf8-2-3")
	step := 61
	if th {
		step = 1
	}
	for c := 0x10000; c <= 0x10FFFF; c += step {
		items = append(items, string(rune(c)))
		if len(items) >= 1024 {
			flush("utf8-4")
		}
	}
	flush("utf8-4")
	// --- the valid two-character escapes at every position of short strings, every offset class
	for _, e := range escKinds {
		for l := 0; l <= 70; l++ {
			for p := 0; p <= l; p++ {
				if !th && (l+p)%5 != int(w.Out.Seed%5) && l > 8 {
					continue
				}
				s := plainRun(p, l) + e + plainRun(l-p, p)
				off := (l*7 + p*3) % 64
				judge("esc-pos", []byte("["+strings.Repeat(" ", off)+`"`+s+`"]`))
			}
		}
	}
	// --- escapes straddling the 64-byte block in which an index buffer fills (stage-1 state
	// carried from one buffer round to the next), with a long tail behind
	w.genFillBlock(fillStep(w), judge)
	w.genBackslashRuns(judge)
	// --- layouts: length x start offset, plain content
	maxLen := 4096
	for l := 0; l <= maxLen; l++ {
		for off := 0; off < 64; off++ {
			if !th {
				// seed-selected 1/64 of the space plus the boundary-heavy lengths
				if (l*64+off+int(w.Out.Seed))%4 != 0 && !(l <= 130) {
					continue
				}
			}
			doc := "[" + strings.Repeat(" ", off) + `"` + plainRun(l, off) + `"]`
			judge("layout", []byte(doc))
		}
	}
	if th && w.Out.Shard == 0 {
		w.Exhaustive("string length 0..4096 x start offset 0..63 (plain content)", 4097*64)
	}
	// --- lengths <= 192: an escape of each kind at every position
	for l := 1; l <= 192; l++ {
		for p := 0; p < l; p++ {
			if !th && (l*193+p+int(w.Out.Seed))%16 != 0 {
				continue
			}
			e := escKinds[(l+p)%len(escKinds)]
			off := (l + 3*p) % 64
			s := plainRun(p, l) + e + plainRun(l-p-1, p)
			judge("esc-sweep", []byte(`{`+strings.Repeat(" ", off)+`"`+s+`":"`+s+`"}`))
		}
	}
	// --- longer strings: escapes adjacent to 32-byte window edges (relative to the string) and 64-byte block edges (relative to the message)
	for _, l := range []int{200, 257, 511, 512, 513, 1000, 2049, 4000} {
		for w32 := 1; w32*32 < l; w32++ {
			for d := -2; d <= 2; d++ {
				if !th && (w32+d+l)%4 != 0 {
					continue
				}
				p := w32*32 + d
				if p < 0 || p >= l {
					continue
				}
				for off := 0; off < 64; off += 21 {
					e := escKinds[(p+off)%len(escKinds)]
					s := plainRun(p, off) + e + plainRun(l-p, p)
					judge("esc-window-edge", []byte("["+strings.Repeat(" ", off)+`"`+s+`"]`))
				}
			}
		}
	}
	// --- backslash runs of length 1..9 ending at each offset 56..72
	for run := 1; run <= 9; run++ {
		for end := 56; end <= 72; end++ {
			// even runs: n/2 literal backslashes; odd runs: ... followed by an escaped quote
			pad := end - run - 2
			if pad < 0 {
				continue
			}
			var s string
			if run%2 == 0 {
				s = strings.Repeat(`\`, run)
			} else {
				s = strings.Repeat(`\`, run) + `"`
			}
			judge("backslash-run", []byte(`["`+plainRun(pad, run)+s+`tail"]`))
			judge("backslash-run-key", []byte(`{"`+plainRun(pad, run)+s+`tail":1}`))
		}
	}
	// --- strings ending 0..70 bytes before the end of the input, end-aligned guard mapping
	for l := 0; l <= 600; l++ {
		if !th && l > 80 && (l+int(w.Out.Seed))%7 != 0 {
			continue
		}
		for gap := 0; gap <= 70; gap++ {
			if !th && (gap+l)%3 != 0 {
				continue
			}
			e := ""
			if (l+gap)%3 == 0 {
				e = escKinds[(l+gap)%len(escKinds)]
			}
			s := plainRun(l/2, gap) + e + plainRun(l-l/2, l)
			doc := `["` + s + `"` + strings.Repeat(" ", gap) + `]`
			w.c04Judge(st, "tail-gap", []byte(doc), true)
			if gap < 8 {
				doc = `{"k":"` + s + `"` + strings.Repeat(" ", gap) + `}`
				w.c04Judge(st, "tail-gap-obj", []byte(doc), true)
			}
		}
	}
	// --- random escape-heavy strings, keys and values
	nRand := 400000
	if th {
		nRand = 6000000
	}
	for i := 0; i < nRand; i++ {
		rr := r.Split()
		n := rr.Range(0, 80)
		if rr.Chance(1, 10) {
			n = rr.Range(80, 1500)
		}
		lit := gen.StringLit(rr, n, true)
		off := rr.Intn(64)
		if rr.Bool() {
			judge("random-esc", []byte("["+strings.Repeat(" ", off)+string(lit)+"]"))
		} else {
			judge("random-esc-key", []byte("{"+strings.Repeat(" ", off)+string(lit)+":"+string(lit)+"}"))
		}
	}
}

func replayC04(w *W, cs *ev.Case) {
	st := &c04State{}
	w.Out.NShards = 1
	w.c04Judge(st, cs.Gen, cs.Input, cs.A == 1)
}
