package main

import (
	"bytes"
	"fmt"
	"strings"

	"verifharness/gen"
)

// An input generator calls fn(gen id, input). Inputs may be reused buffers:
// fn must not retain them. Every generator partitions its index space over
// the shards itself.
type inputFn func(g string, in []byte)

var tokenAlphabet = []string{
	"{", "}", "[", "]", ",", ":", `"k"`, `""`, "1", "-1", "0", "-0", "01", "1.5", "1e2",
	"true", "false", "null", "tru", " ", "\n", "\"\n\"", "\x00", "x",
}

// genTokens enumerates every sequence of 1..maxLen tokens (exhaustive).
func (w *W) genTokens(maxLen int, fn inputFn) {
	n := len(tokenAlphabet)
	total := 0
	buf := make([]byte, 0, 64)
	idx := make([]int, maxLen)
	for l := 1; l <= maxLen; l++ {
		for i := range idx[:l] {
			idx[i] = 0
		}
		count := 1
		for i := 0; i < l; i++ {
			count *= n
		}
		for c := 0; c < count; c++ {
			if w.mine(total) {
				buf = buf[:0]
				for _, t := range idx[:l] {
					buf = append(buf, tokenAlphabet[t]...)
				}
				fn("tokens", buf)
			}
			total++
			for p := l - 1; p >= 0; p-- {
				idx[p]++
				if idx[p] < n {
					break
				}
				idx[p] = 0
			}
		}
	}
	if w.Out.Shard == 0 {
		w.Exhaustive(fmt.Sprintf("token sequences of length<=%d over %d tokens", maxLen, n), int64(total))
	}
}

const numAlphabet = "019-+.eE"

// genNumSpellings enumerates every string of 1..maxLen over numAlphabet as an
// array element and as an object value (exhaustive).
func (w *W) genNumSpellings(maxLen int, fn inputFn) {
	n := len(numAlphabet)
	total := 0
	buf := make([]byte, 0, 32)
	idx := make([]int, maxLen)
	for l := 1; l <= maxLen; l++ {
		for i := range idx[:l] {
			idx[i] = 0
		}
		count := 1
		for i := 0; i < l; i++ {
			count *= n
		}
		for c := 0; c < count; c++ {
			if w.mine(total) {
				buf = append(buf[:0], '[')
				for _, t := range idx[:l] {
					buf = append(buf, numAlphabet[t])
				}
				buf = append(buf, ']')
				fn("numspell-arr", buf)
				buf = append(buf[:0], `{"a":`...)
				for _, t := range idx[:l] {
					buf = append(buf, numAlphabet[t])
				}
				buf = append(buf, '}')
				fn("numspell-obj", buf)
			}
			total++
			for p := l - 1; p >= 0; p-- {
				idx[p]++
				if idx[p] < n {
					break
				}
				idx[p] = 0
			}
		}
	}
	if w.Out.Shard == 0 {
		w.Exhaustive(fmt.Sprintf("number spellings of length<=%d over %q, as array element and object value", maxLen, numAlphabet), int64(total)*2)
	}
}

// genNumLong: targeted long number forms.
func (w *W) genNumLong(fn inputFn) {
	var lits []string
	zeros := []string{"", "0", "00", "000000000000000000", "0000000000000000000000"}
	for _, sign := range []string{"", "-"} {
		for _, z := range zeros {
			for _, body := range []string{"1", "0", "12", "1.5", "0.5", "1e5", "1E+5", "0e0", "0.0", "123456789012345678", "1234567890123456789012", "9223372036854775807", "18446744073709551615"} {
				lits = append(lits, sign+z+body)
			}
		}
	}
	for d := 17; d <= 24; d++ {
		for _, lead := range []string{"1", "9", "18446744073709551615"[:1]} {
			s := lead + strings.Repeat("9", d-1)
			lits = append(lits, s, "-"+s, s+".0", s+"e0", "0"+s, "-0"+s)
		}
	}
	for _, e := range []string{"1e308", "1e309", "1.7976931348623157e308", "1.7976931348623159e308", "2e308", "-1e309", "1e-323", "1e-324", "1e-400", "4.9e-324", "2.4e-324", "2.5e-324",
		"1e99999", "1e-99999", "0e99999", "0e-99999", "-0e99999", "1e+", "1e-", "1e", "1.e1", "1.", ".5", "-.5", "+1", "--1", "-", "1-", "1+1", "1e1e1", "1.5.5", "0x10", "1e1.5", "00", "-00", "01.5", "-01.5", "00.5", "0.e1", "0e", "-0e-", "1E", "1e+-1", "Infinity", "NaN", "-Infinity", "1e0000000000000000000005", "1e-0000000000000000000005", "0.00000000000000000000000000000000000000000001", "100000000000000000000000000000000000000000000", "1" + strings.Repeat("0", 400), "0." + strings.Repeat("0", 400) + "1", "1" + strings.Repeat("0", 308), "1" + strings.Repeat("0", 309)} {
		lits = append(lits, e)
	}
	i := 0
	for _, l := range lits {
		for _, wrap := range [][2]string{{"[", "]"}, {`{"a":`, "}"}, {"[1,", ",2]"}, {`{"a":1,"b":`, `,"c":3}`}, {"[ ", " ]"}, {"[", "\n]"}} {
			if w.mine(i) {
				fn("numlong", []byte(wrap[0]+l+wrap[1]))
			}
			i++
		}
	}
}

// genAtoms: deletions, substitutions and insertions in true/false/null and
// every follow byte after atoms and numbers.
func (w *W) genAtoms(fn inputFn) {
	i := 0
	emit := func(s []byte) {
		for _, wrap := range [][2]string{{"[", "]"}, {`{"a":`, "}"}, {"[1,", ",2]"}} {
			if w.mine(i) {
				fn("atoms", []byte(wrap[0]+string(s)+wrap[1]))
			}
			i++
		}
	}
	for _, atom := range []string{"true", "false", "null"} {
		a := []byte(atom)
		for p := 0; p < len(a); p++ {
			emit(append(append([]byte{}, a[:p]...), a[p+1:]...))
			for c := 0; c < 256; c++ {
				m := append([]byte{}, a...)
				m[p] = byte(c)
				emit(m)
			}
		}
		for p := 0; p <= len(a); p++ {
			for c := 0; c < 256; c++ {
				m := append(append(append([]byte{}, a[:p]...), byte(c)), a[p:]...)
				emit(m)
			}
		}
	}
	for _, tok := range []string{"true", "false", "null", "1", "-1", "0", "1.5", "1e2", "12345678901234567890123"} {
		for c := 0; c < 256; c++ {
			emit(append([]byte(tok), byte(c)))
			emit(append(append([]byte(tok), byte(c)), 'x'))
		}
	}
}

// genStringBytes: every byte raw, after a backslash and in each hex position
// of \u, at every offset mod 64, plus truncated escapes.
func (w *W) genStringBytes(offsets []int, fn inputFn) {
	i := 0
	var variants [][]byte
	for c := 0; c < 256; c++ {
		variants = append(variants, []byte{'a', byte(c), 'b'})
		variants = append(variants, []byte{'a', '\\', byte(c), 'b'})
		for p := 0; p < 4; p++ {
			h := []byte("12aF")
			h[p] = byte(c)
			variants = append(variants, append(append([]byte(`a\u`), h...), 'b'))
		}
	}
	for _, t := range []string{`\`, `\u`, `\u1`, `\u12`, `\u123`, `a\`, `\\\`, `\ud800`, `\ud800\u`, `\ud800\udc0`, `\"`, `\\"`, `\\\"`} {
		variants = append(variants, []byte(t))
	}
	for _, off := range offsets {
		pad := strings.Repeat(" ", off)
		for _, v := range variants {
			if w.mine(i) {
				fn("strbytes-val", []byte("["+pad+`"`+string(v)+`"]`))
				fn("strbytes-key", []byte("{"+pad+`"`+string(v)+`":1}`))
			}
			i++
		}
	}
	// truncated: escape right before end of input
	for _, t := range []string{`["\`, `["\u`, `["\u1`, `["\u12`, `["\u123`, `["ሴ`, `["a\`, `["`, `["a`, `{"a`, `{"a":"`, `{"a\`} {
		for _, off := range offsets {
			if w.mine(i) {
				fn("strbytes-trunc", []byte(strings.Repeat(" ", off)+t))
				fn("strbytes-trunc", []byte("["+strings.Repeat("1,", off)+t[1:]))
			}
			i++
		}
	}
}

// carrier pairs: a must-reject token and a must-accept neighbour.
var carriers = []string{
	"-01.5", "-1.5", "01", "1", "-01e5", "-1e5", "-000000000000000000000001", "-1",
	"true\x00x", "true", "null\x00", "null", "false\x00", "false", `"\u12,4"`, `"ሴ"`, `"\u12g4"`, `"ꯍ"`,
	`"a` + "\x1f" + `b"`, `"a b"`, `"a` + "\x00" + `b"`, `"\q"`, `"\n"`, "1,", "1", "tru", "nul", "fals", "truee", "-", "1.", "1e", ".5", "+1",
	"1 2", "1,2", `"a" "b"`, `"a","b"`, "[1,]", "[1]", "[,1]", "{\"a\":1,}", "{\"a\":1}", "{\"a\"}", "{\"a\":}", "{1:2}", "{\"a\":1 \"b\":2}", "{\"a\":1,\"b\":2}",
	"[1}", "{]", "[[]", "[]]", "1e999", "1e308", "-1e999", "00", "0", "-0", "-00", "0.0", "1.0e+2", "1.0e+", "\"abc", "abc\"", "\"\\\"", "\"\\\\\"",
}

// genAlign places each carrier token at chosen byte offsets of a carrier
// document, at index-buffer ordinals, and around the 8 KiB threshold.
func (w *W) genAlign(offsets []int, ordinals []int, fn inputFn) {
	i := 0
	// (a) byte offsets by white-space and by string padding
	for _, tok := range carriers {
		for _, off := range offsets {
			if w.mine(i) {
				// white-space padding: token starts at byte off+1 (after '[' and pad)
				fn("align-ws", []byte("["+strings.Repeat(" ", off)+tok+"]"))
				// string padding inside an earlier element
				if off >= 4 {
					fn("align-str", []byte(`["`+strings.Repeat("s", off-4)+`",`+tok+`]`))
				}
				// token near the end of the input: off bytes of trailing white space inside
				fn("align-tail", []byte("["+tok+strings.Repeat(" ", off%70)+"]"))
				fn("align-objval", []byte(`{"k":`+strings.Repeat("\t", off)+tok+"}"))
			}
			i++
		}
	}
	// (b) structural ordinals: token is structural number n in the document
	for _, tok := range carriers {
		for _, n := range ordinals {
			if w.mine(i) {
				// "[" is ordinal 0; each "0," contributes 2 structurals.
				var b bytes.Buffer
				b.WriteByte('[')
				k := n - 1 // structurals needed before the token
				if k%2 == 1 && k >= 3 {
					b.WriteString("[],") // 3 structurals
					k -= 3
				}
				for j := 0; j < k/2; j++ {
					b.WriteString("0,") // 2 structurals
				}
				b.WriteString(tok)
				b.WriteByte(']')
				fn("align-ordinal", b.Bytes())
				// same with the token followed by many more elements
				var c bytes.Buffer
				c.Write(b.Bytes()[:b.Len()-1])
				for j := 0; j < 100; j++ {
					c.WriteString(",0")
				}
				c.WriteByte(']')
				fn("align-ordinal-mid", c.Bytes())
			}
			i++
		}
	}
	// (c) total length around the sync/async threshold
	for _, tok := range carriers {
		for d := -70; d <= 70; d += 1 {
			if w.mine(i) {
				target := 8192 + d
				base := len("[") + len(tok) + len(`,""]`)
				if target > base {
					// token at the start
					fn("align-8k-head", []byte("["+tok+`,"`+strings.Repeat("p", target-base)+`"]`))
					// token at the end
					fn("align-8k-tail", []byte(`["`+strings.Repeat("p", target-base)+`",`+tok+"]"))
				}
			}
			i++
		}
	}
}

// genAlignLarge: carrier at the start, middle and end of large documents.
func (w *W) genAlignLarge(sizes []int, fn inputFn) {
	i := 0
	r := w.rng("alignlarge")
	for _, size := range sizes {
		for dens := 0; dens < 3; dens++ {
			body := gen.Aperiodic(r.Split(), size, dens)
			inner := body[1 : len(body)-1]
			// find element boundaries (commas at depth 0 are not tracked; use
			// the first, a middle and the last comma outside strings)
			commas := topLevelCommas(inner)
			if len(commas) < 3 {
				continue
			}
			for ci, tok := range carriers {
				if !w.mine(i) {
					i++
					continue
				}
				i++
				for _, at := range []int{0, commas[len(commas)/2] + 1, len(inner)} {
					var b bytes.Buffer
					b.Grow(len(body) + len(tok) + 4)
					b.WriteByte('[')
					b.Write(inner[:at])
					if at == 0 {
						b.WriteString(tok)
						b.WriteByte(',')
					} else if at == len(inner) {
						b.WriteByte(',')
						b.WriteString(tok)
					} else {
						b.WriteString(tok)
						b.WriteByte(',')
					}
					b.Write(inner[at:])
					b.WriteByte(']')
					fn(fmt.Sprintf("align-large-%d-%d", size, dens), b.Bytes())
				}
				_ = ci
			}
		}
	}
}

// topLevelCommas returns the positions of commas that are outside strings
// and at nesting depth 0 of inner.
func topLevelCommas(inner []byte) []int {
	var out []int
	depth := 0
	inStr := false
	for i := 0; i < len(inner); i++ {
		c := inner[i]
		if inStr {
			if c == '\\' {
				i++
			} else if c == '"' {
				inStr = false
			}
			continue
		}
		switch c {
		case '"':
			inStr = true
		case '[', '{':
			depth++
		case ']', '}':
			depth--
		case ',':
			if depth == 0 {
				out = append(out, i)
			}
		}
	}
	return out
}

// seedDocs returns realistic documents: corpus files (size capped), fuzz
// corpora samples and generated documents.
func (w *W) seedDocs(maxSize, nFuzz, nGen int) []gen.NamedDoc {
	docs := gen.Corpus(maxSize)
	docs = append(docs, gen.FuzzCorpus("corpus.tar.zst", nFuzz, 64<<10)...)
	docs = append(docs, gen.FuzzCorpus("go-corpus.tar.zst", nFuzz/4, 64<<10)...)
	r := w.rng("seeddocs")
	for i := 0; i < nGen; i++ {
		cfg := gen.DocCfg{Size: []int{40, 200, 1000, 5000, 20000}[i%5], MaxDepth: 2 + i%6, MaxFan: 3 + i%9, WS: i % 3, Esc: 30, LongStr: 10, DupKeys: i%2 == 0}
		docs = append(docs, gen.NamedDoc{Name: fmt.Sprintf("gen%d", i), Data: gen.Doc(r.Split(), cfg)})
	}
	return docs
}

// genMutants mutates realistic documents.
func (w *W) genMutants(docs []gen.NamedDoc, perDoc func(size int) int, fn inputFn) {
	i := 0
	for di, d := range docs {
		r := w.rng("mutants", di)
		if w.mine(i) {
			fn("corpus:"+d.Name, d.Data)
		}
		i++
		n := perDoc(len(d.Data))
		for m := 0; m < n; m++ {
			rr := r.Split()
			if !w.mine(i) {
				i++
				continue
			}
			i++
			mut := gen.Mutate(rr, d.Data)
			if rr.Chance(1, 4) {
				mut = gen.Mutate(rr, mut)
			}
			fn("mutant:"+d.Name, mut)
		}
	}
}

// genRandom: random byte strings from several alphabets.
func (w *W) genRandom(count int, maxLen int, fn inputFn) {
	r := w.rng("random")
	for i := 0; i < count; i++ {
		rr := r.Split()
		if !w.mine(i) {
			continue
		}
		n := rr.Intn(maxLen + 1)
		if rr.Chance(1, 2) {
			n = rr.Intn(40)
		}
		a := rr.Intn(3)
		b := gen.RandomBytes(rr, n, a)
		if rr.Chance(1, 3) && n >= 2 {
			// give it a plausible frame so stage 1's end test passes
			b[0] = "[{"[rr.Intn(2)]
			b[n-1] = "]}"[rr.Intn(2)]
		}
		fn(fmt.Sprintf("random-%d", a), b)
	}
}

// genBoundaryPairs puts every pair (c1,c2) of byte classes on the last byte of
// a 64-byte block and the first byte of the next, outside and inside a
// string, with several continuations. Exercises every cross-block carry of
// stage 1 (quote state, odd backslash runs, pseudo-structural predecessor).
func (w *W) genBoundaryPairs(fn inputFn) {
	alphabet := []byte{'"', '\\', ' ', '\n', ',', ':', '[', ']', '{', '}', '1', 'a', 't', '-', 0x1f, 0x0b, 0x80}
	suffixes := []string{`]`, `"]`, `,1]`, `":1}`, `,"z"]`, `x"]`, ` ]`, `"`, ``}
	i := 0
	for blk := 1; blk <= 2; blk++ {
		for ctx := 0; ctx < 3; ctx++ {
			var pre string
			switch ctx {
			case 0: // outside strings, inside an array
				pre = "[1," + strings.Repeat(" ", 64*blk-1-3)
			case 1: // inside a string value
				pre = `["` + strings.Repeat("s", 64*blk-1-2)
			case 2: // inside a key
				pre = `{"` + strings.Repeat("k", 64*blk-1-2)
			}
			for _, c1 := range alphabet {
				for _, c2 := range alphabet {
					for _, suf := range suffixes {
						i++
						if !w.mine(i) {
							continue
						}
						fn("boundary-pair", []byte(pre+string([]byte{c1, c2})+suf))
					}
				}
			}
		}
	}
	// the same pairs with one or two whole 64-byte blocks of a single filler byte between
	// them (blank blocks outside strings, plain blocks inside): what stage 1 carries from the
	// byte before the gap must survive blocks in which nothing happens
	for ctx := 0; ctx < 3; ctx++ {
		var pre string
		fill := " "
		switch ctx {
		case 0:
			pre = "[1," + strings.Repeat(" ", 64-1-3)
		case 1:
			pre, fill = `["`+strings.Repeat("s", 64-1-2), "s"
		case 2:
			pre, fill = `{"`+strings.Repeat("k", 64-1-2), "k"
		}
		for _, gap := range []int{64, 128} {
			for _, c1 := range alphabet {
				for _, c2 := range alphabet {
					for _, suf := range suffixes {
						i++
						if !w.mine(i) {
							continue
						}
						fn("boundary-pair-gap", []byte(pre+string(c1)+strings.Repeat(fill, gap)+string(c2)+suf))
					}
				}
			}
		}
	}
}

// genFillBlock slides tokens across the end of the 64-byte block in which an
// index buffer fills up (the point where stage 1 starts a new round and has
// to carry quote state, odd backslash runs and the pseudo-structural
// predecessor over). nbuf: which buffer (1st, 2nd, 3rd).
func (w *W) genFillBlock(step int, fn inputFn) {
	toks := append([]string{}, carriers...)
	toks = append(toks, `"ab\"cd"`, `"ab\\"`, `"ab\\\"cd"`, `"\\\\\\\""`, `"x\n\"y"`, `{"k\"":"v\\"}`, `["\"","\\"]`, `"é\"😀"`, "true", "-1.5e3", `{"a":{"b":[]}}`)
	i := 0
	for nbuf := 1; nbuf <= 3; nbuf++ {
		var pre bytes.Buffer
		pre.WriteByte('[')
		for pre.Len() < 1408*(nbuf-1) {
			// complete buffers: all-structural bytes, 1408 each
			if 1408*(nbuf-1)-pre.Len() >= 2 {
				pre.WriteString("0,")
			} else {
				pre.WriteByte(' ')
			}
		}
		// 1400 structurals over the next 1408 bytes: no fill at the end of that block
		base := pre.Len()
		for pre.Len() < base+1400 {
			pre.WriteString("0,")
		}
		for pre.Len() < base+1408 {
			pre.WriteByte(' ')
		}
		// ten more structurals: the count passes 1408 early in the fill block
		pre.WriteString("0,0,0,0,0,")
		p := pre.Bytes()
		// more than 64 bytes must follow the fill block, or stage 1 tags the tail on to the same round
		more := strings.Repeat(`,"m",0`, 40)
		for _, tok := range toks {
			for s := 0; s <= 70; s += step {
				i++
				if !w.mine(i) {
					continue
				}
				// token after s bytes of string padding, so that the padding's closing quote,
				// the comma and the token cross the block end at every alignment
				var b bytes.Buffer
				b.Write(p)
				b.WriteString(`"` + strings.Repeat("s", s) + `",`)
				b.WriteString(tok)
				b.WriteString(`,"t"` + more + `]`)
				fn("fill-block", b.Bytes())
				// and with white space instead of a string
				b.Reset()
				b.Write(p)
				b.WriteString(strings.Repeat(" ", s))
				b.WriteString(tok)
				b.WriteString(`,1` + more + `]`)
				fn("fill-block-ws", b.Bytes())
				// escapes inside one long string crossing the block end
				b.Reset()
				b.Write(p)
				b.WriteString(`"` + strings.Repeat("s", s) + `\"` + strings.Repeat("u", 5) + `\\` + `",` + tok + more + `]`)
				fn("fill-block-esc", b.Bytes())
			}
		}
	}
}

// genBufferFill: inputs whose last index buffer ends as full as it can get:
// N all-structural blocks, two partly structural blocks (a and b structurals)
// and an all-structural tail of t bytes. Exercises the safety margin of the
// index buffers (1536 entries, rounds stop at 1408 + at most 63, the tail
// adds at most 64).
func (w *W) genBufferFill(fn inputFn) {
	i := 0
	blk := func(k int, c byte) string { return strings.Repeat(string(c), k) + strings.Repeat(" ", 64-k) }
	for _, c := range []byte{',', '[', '\n'} {
		for n := 19; n <= 25; n++ {
			for _, a := range []int{0, 1, 31, 62, 63, 64} {
				for _, b := range []int{0, 1, 33, 63, 64} {
					for _, t := range []int{0, 1, 2, 31, 62, 63, 64} {
						i++
						if !w.mine(i) {
							continue
						}
						var sb strings.Builder
						sb.WriteString("[")
						sb.WriteString(strings.Repeat(string(c), 63))
						sb.WriteString(strings.Repeat(strings.Repeat(string(c), 64), n-1))
						sb.WriteString(blk(a, c))
						sb.WriteString(blk(b, c))
						if t > 0 {
							sb.WriteString(strings.Repeat(string(c), t-1))
						}
						sb.WriteString("]")
						fn("buffer-fill", []byte(sb.String()))
					}
				}
			}
		}
	}
}

// genFillThenBlank: valid documents whose closing bracket lies in the very block in which an index
// buffer fills up (1408..1471 entries), followed by trailing white space of many lengths (none, less
// than a block, exactly one, more than one, kilobytes) and optionally led by white space: what Parse
// has to ignore must not turn into a round of its own that finds nothing. With and without a final
// junk byte (must be rejected).
func (w *W) genFillThenBlank(fn inputFn) {
	i := 0
	for _, m := range []int{1, 2} {
		for delta := -2; delta <= 66; delta += 1 + delta/8 {
			// "[ " + "1," x k + "2]": structurals = 1 ('[') + 2k ('1' and ',') + 2 ('2' and ']')
			total := 1408*m + delta
			k := (total - 3) / 2
			if k < 1 {
				continue
			}
			body := "[ " + strings.Repeat("1,", k) + "2]"
			for _, lead := range []int{0, 1, 64, 200} {
				for _, trail := range []int{0, 1, 62, 63, 64, 65, 66, 127, 128, 129, 191, 192, 193, 1000, 5000} {
					i++
					if !w.mine(i) {
						continue
					}
					ws := func(n int, off int) string {
						b := make([]byte, n)
						for j := range b {
							b[j] = " \n\t\r"[(j+off)%4]
						}
						return string(b)
					}
					doc := ws(lead, i) + body + ws(trail, i+1)
					fn("fill-then-blank", []byte(doc))
					if trail > 0 && i%3 == 0 {
						fn("fill-then-blank-junk", []byte(doc+"x"))
					}
				}
			}
		}
	}
}

// genBlankRunInString: strings (values and keys) that hold a run of 64..200 blanks, i.e. at least one
// 64-byte block that lies wholly inside a string and consists of white-space bytes only, with a raw
// TAB, LF or CR (invalid inside a string) or a plain space (valid) somewhere inside the run, away
// from its edges; every start offset. Also the same runs outside strings (always valid).
func (w *W) genBlankRunInString(fn inputFn) {
	i := 0
	for s0 := 0; s0 < 64; s0 += 3 {
		for _, L := range []int{64, 90, 127, 128, 200} {
			for _, c := range []byte{'\t', '\n', '\r', ' '} {
				for _, p := range []int{L / 2, L - 2, 1} {
					i++
					if !w.mine(i) {
						continue
					}
					run := strings.Repeat(" ", p) + string(c) + strings.Repeat(" ", L-p-1)
					if i%4 == 0 {
						run = strings.ReplaceAll(run, " ", string(c)) // the whole run of that byte
					}
					pad := strings.Repeat("x", s0)
					fn("blank-run-in-string", []byte(`["`+pad+run+`y",1]`))
					fn("blank-run-in-key", []byte(`{"`+pad+run+`":"`+pad+`"}`))
					fn("blank-run-outside", []byte(`["`+pad+`",`+run+`1]`))
				}
			}
		}
	}
}

func fillStep(w *W) int {
	if w.thorough() {
		return 1
	}
	return 3
}

// spaceInDense returns the valid document [1,1,...,1] of exactly total bytes
// with one space inserted q bytes before the end (between a number and its
// comma): all bytes but one are indexed by stage 1, which lets a round end
// with 1408+63 entries and the tail add up to 64 more.
func spaceInDense(total, q int) []byte {
	n := (total - 1) / 2 // number of "1," / "1]" pairs
	b := make([]byte, 0, total+1)
	b = append(b, '[')
	for i := 0; i < n; i++ {
		b = append(b, '1', ',')
	}
	b[len(b)-1] = ']'
	if q > 2 && q < len(b)-2 {
		p := len(b) - q
		if b[p] == ',' {
			p-- // insert before a comma: after the digit
			p++
		}
		if b[p] != ',' {
			p++
		}
		b = append(b[:p], append([]byte{' '}, b[p:]...)...)
	}
	return b
}

// genSpaceInDense sweeps total length and the position of the space.
func (w *W) genSpaceInDense(bases []int, fn inputFn) {
	i := 0
	for _, base := range bases {
		for r := 0; r <= 1600; r += 29 {
			for q := 66; q <= 1750; q += 59 {
				i++
				if !w.mine(i) {
					continue
				}
				fn("space-in-dense", spaceInDense(base+r, q))
			}
		}
	}
}

// alignedPartial builds the valid document "[ 1,1,...]" in which two 64-byte
// blocks near the end hold only a and b indexed bytes (the rest spaces),
// followed by t more dense bytes: every round of stage 1 ends as full as the
// layout allows and the tail is tagged on to it.
func alignedPartial(j, a, b, t int) []byte {
	part := func(k int) string { return strings.Repeat("1,", k/2) + strings.Repeat(" ", 64-k/2*2) }
	p := 31 + 32*j
	return []byte("[ " + strings.Repeat("1,", p) + part(a) + part(b) + strings.Repeat("1,", t/2) + "1]")
}

// genAlignedPartial sweeps alignedPartial over prefix lengths jLo..jHi.
func (w *W) genAlignedPartial(jLo, jHi, jStep int, fn inputFn) {
	i := 0
	for j := jLo; j <= jHi; j += jStep {
		for _, a := range []int{0, 2, 60, 62, 64} {
			for _, b := range []int{0, 2, 62, 64} {
				for _, t := range []int{0, 2, 30, 60, 62, 64} {
					i++
					if !w.mine(i) {
						continue
					}
					fn("aligned-partial", alignedPartial(j, a, b, t))
				}
			}
		}
	}
}

// genCarryThenNothing: the index buffer fills exactly at the start of a string / atom / number
// (that index is stripped and carried into the next round) and no further structural character
// follows: the token runs to the end of the input, terminated or not.
func (w *W) genCarryThenNothing(fn inputFn) {
	for _, k := range []int{1406, 1407, 1408, 2815, 2816, 4223} {
		for _, tail := range []string{`"` + strings.Repeat("a", 100), `"` + strings.Repeat("a", 100) + `"`, "tru" + strings.Repeat("e", 90), "1" + strings.Repeat("2", 90), `"` + strings.Repeat("a", 30), `"a",` + strings.Repeat(" ", 100),
			"1" + strings.Repeat("2", 160), "-" + strings.Repeat("0", 70), "nul" + strings.Repeat("l", 200), "\x01" + strings.Repeat("z", 80)} {
			fn("carry-then-nothing", append(bytes.Repeat([]byte("["), k), tail...))
			fn("carry-then-nothing", append(append([]byte("["), bytes.Repeat([]byte("0,"), k/2)...), tail...))
			// the same with the dense part ending at the last byte of a 64-byte block
			pad := (64 - (1+2*(k/2))%64) % 64
			fn("carry-then-nothing", append(append(append([]byte("["), bytes.Repeat([]byte(" "), pad)...), bytes.Repeat([]byte("0,"), k/2)...), tail...))
		}
	}
}

// genDenseSizes: structurally dense valid documents (about one index entry per byte) of every
// size from the sync/async threshold up to what 17 index buffers hold, in steps of 160 bytes:
// wherever a size threshold between the one-goroutine and the two-goroutine path lies, dense
// input on the wrong side of it overfills the channel. Also newline-dense NDJSON.
func (w *W) genDenseSizes(fn inputFn) {
	i := 0
	for n := 7000; n <= 17*1408+300; n += 160 {
		for kind := 0; kind < 4; kind++ {
			i++
			if !w.mine(i) {
				continue
			}
			var b []byte
			switch kind {
			case 0:
				b = append(b, '[')
				for len(b) < n-3 {
					b = append(b, "[],"...)
				}
				b = append(b, "[]]"...)
			case 1:
				b = append(b, '[')
				for len(b) < n-2 {
					b = append(b, "1,"...)
				}
				b = append(b, "1]"...)
			case 2:
				b = append(b, '{')
				for len(b) < n-6 {
					b = append(b, `"":0,`...)
				}
				b = append(b, `"":0}`...)
			default:
				// NDJSON-shaped: a document, a long run of blank lines, a document (every LF is an
				// index entry in NDJSON mode; as one JSON text it is two documents: invalid for Parse)
				b = append(b, `{"a":1}`...)
				for len(b) < n-8 {
					b = append(b, '\n')
				}
				b = append(b, `{"b":2}`...)
			}
			fn("dense-sizes", b)
		}
	}
}

// genBackslashRuns: runs of 58..200 backslashes (whole 64-byte blocks of nothing but
// backslashes, with every parity of the part before the block boundary), inside a string at
// sampled start offsets; even runs are valid strings, odd runs escape the closing quote.
func (w *W) genBackslashRuns(fn inputFn) {
	i := 0
	for _, run := range []int{58, 62, 63, 64, 65, 66, 67, 68, 70, 72, 96, 126, 127, 128, 129, 130, 131, 132, 134, 190, 192, 193, 194, 196, 200} {
		for off := 0; off < 64; off++ {
			i++
			if !w.mine(i) {
				continue
			}
			pre := `["` + strings.Repeat("a", off)
			fn("backslash-run", []byte(pre+strings.Repeat("\\", run)+`","z"]`))
			fn("backslash-run", []byte(pre+strings.Repeat("\\", run)+`"","z"]`))
			fn("backslash-run-key", []byte(`{"`+strings.Repeat("k", off)+strings.Repeat("\\", run)+`":1}`))
		}
	}
}
