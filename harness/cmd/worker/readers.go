package main

import (
	"bytes"
	"errors"
	"fmt"

	simdjson "github.com/minio/simdjson-go"

	"verifharness/ref"
	"verifharness/walk"
)

// mismatch names a reader whose view of the document differs from the model.
type mismatch struct {
	Reader string
	Diff   string
}

func cmpRoots(want, got []*ref.Value, err error, loose bool) string {
	if err != nil {
		return "error: " + err.Error()
	}
	if len(got) != len(want) {
		return fmt.Sprintf("%d roots, want %d", len(got), len(want))
	}
	for i := range want {
		var d string
		if loose {
			d = ref.DiffLoose(want[i], got[i])
		} else {
			d = ref.Diff(want[i], got[i])
		}
		if d != "" {
			return fmt.Sprintf("root %d: %s", i, d)
		}
	}
	return ""
}

// parseRoots parses marshalled output: roots separated by newlines.
func parseRoots(text []byte) ([]*ref.Value, error) {
	var out []*ref.Value
	for _, ln := range bytes.Split(text, []byte("\n")) {
		if len(ln) == 0 {
			return nil, errors.New("empty line in marshalled output")
		}
		v, info, err := ref.ParseText(ln)
		if err != nil {
			return nil, fmt.Errorf("marshalled text is not valid JSON: %v in %.80q", err, ln)
		}
		if info.BadUTF8 && false {
			return nil, errors.New("invalid UTF-8")
		}
		out = append(out, v)
	}
	return out, nil
}

type readerOpts struct {
	Serialize bool
	Lookups   bool
	MaxDepth  int
}

// readerMatrix reads pj back through every public route and reports every
// route that disagrees with the model.
func readerMatrix(pj *simdjson.ParsedJson, want []*ref.Value, o readerOpts) (out []mismatch, used int) {
	add := func(name, d string) {
		used++
		if d != "" {
			out = append(out, mismatch{name, d})
		}
	}
	got, err := walk.Into(pj)
	add("AdvanceInto", cmpRoots(want, got, err, false))
	got, err = walk.Adv(pj)
	add("Advance+NextElementBytes", cmpRoots(want, got, err, false))
	got, err = walk.IterCB(pj)
	add("ForEach+AdvanceIter", cmpRoots(want, got, err, false))
	got, err = walk.Elems(pj)
	add("Object.Parse/Elements", cmpRoots(want, got, err, false))
	// Interface / Map
	{
		x, err := walk.Iface(pj)
		d := ""
		if err != nil {
			d = "error: " + err.Error()
		} else if arr, ok := x.([]interface{}); !ok || len(arr) != len(want) {
			d = fmt.Sprintf("top-level Interface() gave %T with %d roots, want %d", x, len(arr), len(want))
		} else {
			for i := range want {
				if dd := walk.CompareIface(want[i], arr[i]); dd != "" {
					d = fmt.Sprintf("root %d: %s", i, dd)
					break
				}
			}
		}
		add("Interface/Map", d)
	}
	// Iter.MarshalJSON from the root iterator
	{
		var text []byte
		perr := walk.Guard(func() error {
			it := pj.Iter()
			var e error
			text, e = it.MarshalJSON()
			return e
		})
		d := ""
		if perr != nil {
			d = "error: " + perr.Error()
		} else {
			roots, e := parseRoots(text)
			d = cmpRoots(want, roots, e, true)
		}
		add("Iter.MarshalJSON", d)
	}
	// Array.MarshalJSON / Elements.MarshalJSON on the root values, and on inner containers
	{
		d := ""
		perr := walk.Guard(func() error {
			ri := 0
			return pj.ForEach(func(i simdjson.Iter) error {
				w := want[ri]
				ri++
				switch i.Type() {
				case simdjson.TypeArray:
					a, err := i.Array(nil)
					if err != nil {
						return err
					}
					text, err := a.MarshalJSON()
					if err != nil {
						return fmt.Errorf("Array.MarshalJSON: %w", err)
					}
					if again, err := a.MarshalJSON(); err != nil || !bytes.Equal(again, text) {
						return fmt.Errorf("Array.MarshalJSON a second time on the same Array: %v %.80q, first %.80q", err, again, text)
					}
					v, _, err := ref.ParseText(text)
					if err != nil {
						return fmt.Errorf("Array.MarshalJSON output invalid: %v in %.80q", err, text)
					}
					if dd := ref.DiffLoose(w, v); dd != "" && d == "" {
						d = "Array.MarshalJSON: " + dd
					}
				case simdjson.TypeObject:
					ob, err := i.Object(nil)
					if err != nil {
						return err
					}
					els, err := ob.Parse(nil)
					if err != nil {
						return fmt.Errorf("Object.Parse: %w", err)
					}
					text, err := els.MarshalJSON()
					if err != nil {
						return fmt.Errorf("Elements.MarshalJSON: %w", err)
					}
					if again, err := els.MarshalJSON(); err != nil || !bytes.Equal(again, text) {
						return fmt.Errorf("Elements.MarshalJSON a second time on the same Elements: %v %.80q, first %.80q", err, again, text)
					}
					v, _, err := ref.ParseText(text)
					if err != nil {
						return fmt.Errorf("Elements.MarshalJSON output invalid: %v in %.80q", err, text)
					}
					if dd := ref.DiffLoose(w, v); dd != "" && d == "" {
						d = "Elements.MarshalJSON: " + dd
					}
				}
				return nil
			})
		})
		if perr != nil && d == "" {
			d = "error: " + perr.Error()
		}
		add("Array/Elements.MarshalJSON", d)
	}
	if o.Lookups {
		add("FindKey/FindPath", lookupReader(pj, want))
		add("PeekNext/PeekNextTag", peekReader(pj, want))
		add("Array.As*/FirstType", typedArrayReader(pj, want))
	}
	if o.Serialize {
		d := ""
		var back *simdjson.ParsedJson
		perr := walk.Guard(func() error {
			s := simdjson.NewSerializer()
			blob := s.Serialize(nil, *pj)
			var e error
			// every other round trip lands in one recycled destination: it still holds the previous
			// round trip, typically the same document one edit earlier (a member that is deleted now
			// was a live container then), at the same tape offsets
			readerSerCalls++
			if walk.SharedDst && readerSerCalls%2 == 0 {
				back, e = s.Deserialize(blob, readerSerDst)
				if e == nil {
					readerSerDst = back
				} else {
					readerSerDst = nil
				}
				return e
			}
			back, e = s.Deserialize(blob, nil)
			return e
		})
		if perr != nil {
			d = "error: " + perr.Error()
		} else {
			got, err := walk.Into(back)
			d = cmpRoots(want, got, err, false)
		}
		add("Serialize+Deserialize", d)
	}
	return
}

var (
	readerElemDst  simdjson.Element
	readerSerDst   *simdjson.ParsedJson
	readerSerCalls int
)

// lookupReader: for every object of the model (bounded), FindKey / FindPath of
// each distinct key must give the first live member of that name.
func lookupReader(pj *simdjson.ParsedJson, want []*ref.Value) string {
	d := ""
	perr := walk.Guard(func() error {
		locs := allLocs(want, 400)
		n := 0
		for _, l := range locs {
			mo := modelAt(want, l)
			if mo.K != ref.Object {
				continue
			}
			n++
			if n > 12 {
				break
			}
			seen := map[string]bool{}
			for i, k := range mo.Keys {
				if seen[string(k)] {
					continue
				}
				seen[string(k)] = true
				it, err := locateInto(pj, l)
				if err != nil {
					return fmt.Errorf("locating object %v: %w", l, err)
				}
				ob, err := it.Object(nil)
				if err != nil {
					return err
				}
				// a recycled destination Element (it still describes the previous hit)
				e := ob.FindKey(string(k), &readerElemDst)
				if e == nil {
					d = fmt.Sprintf("FindKey(%q) = nil at %v, member %d has that key", k, l, i)
					return nil
				}
				v, err := walk.IntoValue(e.Iter)
				if err != nil {
					d = fmt.Sprintf("FindKey(%q) at %v: reading the value: %v", k, l, err)
					return nil
				}
				if dd := ref.Diff(mo.Vals[i], v); dd != "" {
					d = fmt.Sprintf("FindKey(%q) at %v: %s", k, l, dd)
					return nil
				}
				ob2, _ := it.Object(nil)
				e2, err := ob2.FindPath(nil, string(k))
				if err != nil {
					d = fmt.Sprintf("FindPath(%q) at %v: %v", k, l, err)
					return nil
				}
				v, err = walk.IntoValue(e2.Iter)
				if err != nil {
					d = fmt.Sprintf("FindPath(%q) at %v: reading the value: %v", k, l, err)
					return nil
				}
				if dd := ref.Diff(mo.Vals[i], v); dd != "" {
					d = fmt.Sprintf("FindPath(%q) at %v: %s", k, l, dd)
					return nil
				}
			}
			// an absent key stays absent
			it, err := locateInto(pj, l)
			if err != nil {
				return err
			}
			ob, _ := it.Object(nil)
			if e := ob.FindKey("\x00gone", nil); e != nil {
				d = fmt.Sprintf("FindKey(absent) found %q at %v", e.Name, l)
				return nil
			}
			// nor may a miss hand back the recycled destination with what it held
			ob, _ = it.Object(nil)
			if e := ob.FindKey("\x00gone", &readerElemDst); e != nil {
				d = fmt.Sprintf("FindKey(absent, recycled destination) returned a non-nil element (%q) at %v", e.Name, l)
				return nil
			}
		}
		return nil
	})
	if perr != nil && d == "" {
		d = "error: " + perr.Error()
	}
	return d
}

// peekReader: stepping through arrays of scalars, PeekNext/PeekNextTag must
// announce the next live member (or none).
func peekReader(pj *simdjson.ParsedJson, want []*ref.Value) string {
	d := ""
	perr := walk.Guard(func() error {
		locs := allLocs(want, 400)
		n := 0
		for _, l := range locs {
			ma := modelAt(want, l)
			if ma.K != ref.Array {
				continue
			}
			scalars := true
			for _, e := range ma.A {
				if e.K == ref.Array || e.K == ref.Object {
					scalars = false
				}
			}
			if !scalars {
				continue
			}
			n++
			if n > 12 {
				break
			}
			it, err := locateInto(pj, l)
			if err != nil {
				return err
			}
			a, err := it.Array(nil)
			if err != nil {
				return err
			}
			ai := a.Iter()
			for k := 0; k <= len(ma.A); k++ {
				wantT := simdjson.TypeNone
				if k < len(ma.A) {
					wantT = kindType(ma.A[k])
				}
				pt := ai.PeekNext()
				if k == len(ma.A) {
					// at the end the array's closing tag is next: PeekNext reports no value type
					if pt != simdjson.TypeNone {
						d = fmt.Sprintf("PeekNext at the end of array %v = %v", l, pt)
						return nil
					}
					break
				}
				if pt != wantT {
					d = fmt.Sprintf("PeekNext before member %d of array %v = %v, want %v", k, l, pt, wantT)
					return nil
				}
				if tg := ai.PeekNextTag(); tg.Type() != wantT {
					d = fmt.Sprintf("PeekNextTag before member %d of array %v = %q, want type %v", k, l, byte(tg), wantT)
					return nil
				}
				// step with AdvanceInto (scalars only, so it stays on this level)
				ai.AdvanceInto()
			}
		}
		return nil
	})
	if perr != nil && d == "" {
		d = "error: " + perr.Error()
	}
	return d
}

// typedArrayReader: the typed and bulk accessors of arrays (bounded number per document)
// must give what the model's live members say.
func typedArrayReader(pj *simdjson.ParsedJson, want []*ref.Value) string {
	d := ""
	perr := walk.Guard(func() error {
		n := 0
		for _, l := range allLocs(want, 400) {
			ma := modelAt(want, l)
			if ma.K != ref.Array {
				continue
			}
			if n++; n > 12 {
				break
			}
			l := l
			getArr := func() *simdjson.Array {
				it, err := locateInto(pj, l)
				if err != nil {
					return nil
				}
				a, err := it.Array(nil)
				if err != nil {
					return nil
				}
				return a
			}
			arrayAccessors(getArr, ma, func() {}, func(api, detail string) {
				if d == "" {
					d = api + " at " + l.String() + ": " + detail
				}
			})
			if d != "" {
				return nil
			}
		}
		return nil
	})
	if perr != nil && d == "" {
		d = "error: " + perr.Error()
	}
	return d
}
