package main

import (
	"bytes"
	"fmt"

	simdjson "github.com/minio/simdjson-go"

	"verifharness/ev"
	"verifharness/gen"
	"verifharness/ref"
	"verifharness/tapecheck"
	"verifharness/walk"
)

var c13Recycled, c13CloneDst *simdjson.ParsedJson

func init() { register("C13", runC13, replayC13) }

var c13Snap *simdjson.ParsedJson

type histState struct {
	n   int
	idx int
}

// c13History runs one seeded history of replacements on doc.
func (w *W) c13History(st *histState, g string, doc []byte, hseed int64, nops int) {
	st.idx++
	if !w.mine(st.idx) {
		return
	}
	cs := &ev.Case{Gen: g, Input: doc, A: hseed, B: int64(nops)}
	w.Journal(cs)
	if w.Skip() {
		return
	}
	a := ref.Analyze(doc)
	if a.Class != ref.MustAccept || a.Info.MaxDepth > 300 {
		w.Count("skipped_docs", 1)
		return
	}
	st.n++
	r := gen.New(uint64(hseed), "c13hist")
	cfg := w.configs()[r.Intn(len(w.configs()))]
	var pj *simdjson.ParsedJson
	var err error
	orig := append([]byte{}, doc...)
	defer func() {
		// edits go to the tape and the string buffer; the caller's input is never written to
		if !bytes.Equal(orig, doc) {
			w.Violation("C13/input-buffer-modified", fmt.Sprintf("after the history the caller's input buffer differs from what was parsed (%s); doc=%s", cfg, q(orig)), cs)
			copy(doc, orig)
		}
	}()
	switch {
	case hseed%3 == 2:
		// the document as Deserialize hands it out: every string lives in Message, equal strings
		// are stored once and shared by all their occurrences
		var p *simdjson.ParsedJson
		p, err, _ = w.parseGuarded(doc, cfg, false, false)
		if err == nil {
			walk.Guard(func() error {
				s := simdjson.NewSerializer()
				s.CompressMode(compModes[int(hseed/3)%4])
				pj, err = s.Deserialize(s.Serialize(nil, *p), nil)
				return nil
			})
			w.Count("histories_on_deserialized_documents", 1)
		}
	case hseed%5 == 0:
		// the object the previous history of this kind edited, recycled for this document (by pointer:
		// the parser stays attached): whatever the edits left behind in it says nothing about this one
		w.setKernel(cfg.AVX512)
		walk.Guard(func() error {
			pj, err = simdjson.Parse(doc, c13Recycled, simdjson.WithCopyStrings(cfg.Copy))
			return nil
		})
		c13Recycled = pj
		w.Count("histories_on_a_recycled_edited_object", 1)
	case hseed%5 == 1:
		// a clone into the destination that held the previous history's edited document
		var p *simdjson.ParsedJson
		p, err, _ = w.parseGuarded(doc, cfg, false, false)
		if err == nil {
			pj = p.Clone(c13CloneDst)
			c13CloneDst = pj
			w.Count("histories_on_a_clone_into_a_recycled_edited_object", 1)
		}
	case r.Bool():
		pj, err, _ = w.parseGuarded(doc, cfg, false, true)
	default:
		var p *simdjson.ParsedJson
		p, err, _ = w.parseGuarded(doc, cfg, false, false)
		if err == nil {
			pj = p.Clone(nil)
		}
	}
	if err != nil || pj == nil {
		w.Count("valid_doc_rejected_by_parse_(C01)", 1)
		return
	}
	roots := []*ref.Value{ref.Clone(a.Value)}
	effective := 0
	var trace []string
	for step := 0; step < nops; step++ {
		locs := allLocs(roots, 2000)
		if step == nops-1 && hseed%9 == 0 {
			// every ninth history ends by nulling the root value itself
			locs = []Loc{{Root: 0}}
		}
		// prefer scalars; containers only get SetNull (other ops on them are "disallowed" checks)
		l := locs[r.Intn(len(locs))]
		for try := 0; try < 4 && len(l.Path) == 0; try++ {
			l = locs[r.Intn(len(locs))] // the root value itself is rarely picked
		}
		if len(l.Path) == 0 && len(locs) > 1 && r.Chance(3, 4) {
			continue
		}
		op := randSetOp(r)
		cur := modelAt(roots, l)
		if (cur.K == ref.Array || cur.K == ref.Object) && r.Chance(2, 3) {
			op = setOp{Kind: 0}
		}
		route := r.Intn(nRoutes)
		desc := fmt.Sprintf("%s-on-%v-via-%s", setNames[op.Kind], cur.K, routeNames[route])
		trace = append(trace, fmt.Sprintf("%v:%s", l, op))
		bad, applied := doSet(pj, roots, l, op, route)
		w.Eval(1)
		w.Count("op_"+setNames[op.Kind], 1)
		if !op.allowed(cur.K) {
			w.Count("disallowed_calls_checked", 1)
		}
		if bad != "" {
			w.Violation("C13/call/"+desc, fmt.Sprintf("%s; doc=%s history=%v", bad, q(doc), lastN(trace, 6)), cs)
			return
		}
		if applied {
			effective++
		}
		ms, used := readerMatrix(pj, roots, readerOpts{Serialize: step%4 == 0 || step == nops-1, Lookups: true})
		w.Eval(used)
		for _, m := range ms {
			w.Violation("C13/reader="+nosp(m.Reader)+"/after-"+setNames[op.Kind]+"-on-"+cur.K.String(), fmt.Sprintf("after %s at %v (step %d) %s disagrees with the model: %s; doc=%s history=%v", op, l, step, m.Reader, m.Diff, q(doc), lastN(trace, 6)), cs)
		}
		if _, err := tapecheck.Check(pj, tapecheck.Options{AllowNop: true}); err != nil {
			w.Violation("C13/tape-format/after-"+setNames[op.Kind]+"-on-"+cur.K.String(), fmt.Sprintf("after %s at %v the tape violates the documented format: %v; doc=%s", op, l, err, q(doc)), cs)
			return
		}
		if len(ms) > 0 {
			return
		}
	}
	// snapshot into a destination recycled across histories: the edited document, strings grown by Set* included
	var cerr error
	perr := walk.Guard(func() error {
		c13Snap = pj.Clone(c13Snap)
		got, e := walk.Into(c13Snap)
		if d := cmpRoots(roots, got, e, false); d != "" {
			cerr = fmt.Errorf("%s", d)
		}
		return nil
	})
	w.Eval(1)
	if perr != nil || cerr != nil {
		w.Violation("C13/clone-of-edited-into-recycled-destination", fmt.Sprintf("Clone(dst) of the edited document: %v %v; doc=%s history=%v", perr, cerr, q(doc), lastN(trace, 6)), cs)
		c13Snap = nil
	}
	if effective >= 1 {
		w.Nontrivial(gen.Hash64(doc, []byte(fmt.Sprint(hseed, nops))))
	}
	w.Count("histories", 1)
	w.Count("effective_edits", effective)
	if w.WantSample() {
		w.Sample(map[string]interface{}{"doc": q(doc), "ops": lastN(trace, 8), "config": cfg.String()})
	}
}

func lastN(s []string, n int) []string {
	if len(s) > n {
		return s[len(s)-n:]
	}
	return s
}

// editDocs feeds small and medium documents to fn, nHist times in total.
func (w *W) editDocs(nHist int, fn func(g string, doc []byte, k int)) {
	r := w.rng("editdocs")
	fixed := []string{
		`{"a":1,"b":"two","c":[3,4.5,true,null,{"d":"e"}],"f":{"g":[],"h":{}}}`,
		`[1,"s",2.5,false,null,18446744073709551615,[1,[2,[3]]],{"k":"v","k":"dup"}]`,
		`{"":"","x":{"":[""]}}`,
		`[[[[1]]],{"a":{"b":{"c":"deep"}}}]`,
		`{"n":[1,2,3,4,5,6],"s":["a","b","c"],"m":[1,"a",null]}`,
		// the same text many times, as key and as value (stored once by the serializer)
		`{"name":"name","tags":["name","café","café","name"],"café":"name","o":{"name":"café"}}`,
		`[["same-long-string-value","same-long-string-value"],{"same-long-string-value":"same-long-string-value"},"same-long-string-value"]`,
	}
	for k := 0; k < nHist; k++ {
		rr := r.Split()
		switch {
		case k%10 == 0:
			fn("fixed", []byte(fixed[(k/10)%len(fixed)]), k)
		case k%97 == 5:
			fn("doc-large", gen.Doc(rr, gen.DocCfg{Size: 9000 + rr.Intn(20000), MaxDepth: 5, MaxFan: 8, WS: rr.Intn(3), Esc: 20, LongStr: 5, DupKeys: true}), k)
		default:
			fn("doc", gen.Doc(rr, gen.DocCfg{Size: []int{20, 60, 200, 800}[k%4], MaxDepth: 1 + k%5, MaxFan: 2 + k%6, WS: k % 2, Esc: 25, DupKeys: k%3 == 0}), k)
		}
	}
}

func runC13(w *W) {
	st := &histState{}
	n := 20000
	ops := 12
	if w.thorough() {
		n = 400000
		ops = 40
	}
	w.editDocs(n, func(g string, doc []byte, k int) {
		w.c13History(st, g, doc, int64(w.Out.Seed)*1000003+int64(k), 1+k%ops)
	})
}

func replayC13(w *W, cs *ev.Case) {
	w.Out.NShards = 1
	w.c13History(&histState{}, cs.Gen, cs.Input, cs.A, int(cs.B))
}
