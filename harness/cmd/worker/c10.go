package main

import (
	"bytes"
	"fmt"
	"math"
	"strings"

	simdjson "github.com/minio/simdjson-go"

	"verifharness/ev"
	"verifharness/gen"
	"verifharness/ref"
	"verifharness/walk"
)

func init() { register("C10", runC10, replayC10) }

var c10Arr simdjson.Array

// stripNegZero rewrites every number token that is exactly -0 to 0, outside strings.
func stripNegZero(t []byte) []byte {
	out := make([]byte, 0, len(t))
	inStr := false
	for i := 0; i < len(t); i++ {
		c := t[i]
		if inStr {
			out = append(out, c)
			if c == '\\' && i+1 < len(t) {
				i++
				out = append(out, t[i])
			} else if c == '"' {
				inStr = false
			}
			continue
		}
		if c == '"' {
			inStr = true
		}
		if c == '-' && i+1 < len(t) && t[i+1] == '0' {
			end := i+2 >= len(t)
			if !end {
				switch t[i+2] {
				case ',', ']', '}', '\n', ' ', '\t', '\r':
					end = true
				}
			}
			if end {
				continue // drop the sign
			}
		}
		out = append(out, c)
	}
	return out
}

// c10Marshal checks one marshalled text against the value(s) it must denote.
// nd: roots separated by newlines.
func (w *W) c10Text(api string, text []byte, want []*ref.Value, cs *ev.Case, ctx string, fixedPoint bool) bool {
	w.Eval(1)
	roots, err := parseRoots(text)
	if err != nil {
		w.Violation("C10/"+api+"/invalid-json", fmt.Sprintf("%s output is not valid JSON: %v; output=%s; %s", api, err, q(text), ctx), cs)
		return false
	}
	for _, ln := range bytes.Split(text, []byte("\n")) {
		a := ref.Analyze(ln)
		if a.Info.BadUTF8 || a.Info.BadSurrogate {
			w.Violation("C10/"+api+"/invalid-utf8-or-surrogate", fmt.Sprintf("%s output holds invalid UTF-8 or an ill-formed surrogate escape: %s; %s", api, q(ln), ctx), cs)
			return false
		}
	}
	if d := cmpRoots(want, roots, nil, true); d != "" {
		w.Violation("C10/"+api+"/different-document", fmt.Sprintf("%s output denotes a different document: %s; output=%s; %s", api, d, q(text), ctx), cs)
		return false
	}
	if !fixedPoint {
		return true
	}
	// fixed point: parse the text, marshal again
	w.Eval(1)
	var again []byte
	perr := walk.Guard(func() error {
		var pj *simdjson.ParsedJson
		var err error
		if len(want) > 1 {
			pj, err = simdjson.ParseND(text, nil)
		} else {
			pj, err = simdjson.Parse(text, nil)
		}
		if err != nil {
			return fmt.Errorf("re-parsing the output: %w", err)
		}
		it := pj.Iter()
		again, err = it.MarshalJSON()
		return err
	})
	if perr != nil {
		if len(want) == 1 && want[0].K != ref.Array && want[0].K != ref.Object {
			return true // a scalar text cannot be re-parsed by Parse (root must be a container)
		}
		w.Violation("C10/"+api+"/fixed-point-error", fmt.Sprintf("marshal -> parse -> marshal failed: %v; output=%s; %s", perr, q(text), ctx), cs)
		return false
	}
	if !bytes.Equal(again, text) {
		if bytes.Equal(again, stripNegZero(text)) {
			w.Violation("C10/fixed-point/negative-zero-float", fmt.Sprintf("a float -0.0 is marshalled as -0, which re-parses as the integer 0 and is marshalled as 0: %s -> %s; %s", q(text), q(again), ctx), cs)
			return false
		}
		w.Violation("C10/"+api+"/not-a-fixed-point", fmt.Sprintf("marshal(parse(text)) != text: %s vs %s; %s", q(text), q(again), ctx), cs)
		return false
	}
	return true
}

// c10Check runs every marshalling entry point on pj against the model.
func (w *W) c10Check(pj *simdjson.ParsedJson, want []*ref.Value, cs *ev.Case, ctx string, r *gen.Rand) (nontrivial bool) {
	// root iterator, fresh and after Advance (both are "root iterators")
	for variant := 0; variant < 2; variant++ {
		var text []byte
		perr := walk.Guard(func() error {
			it := pj.Iter()
			if variant == 1 {
				it.Advance()
			}
			var e error
			if variant == 0 {
				text, e = it.MarshalJSON()
			} else {
				text, e = it.MarshalJSONBuffer([]byte("PREFIX"))
				if e == nil {
					if !bytes.HasPrefix(text, []byte("PREFIX")) {
						return fmt.Errorf("MarshalJSONBuffer did not append to the destination")
					}
					text = text[len("PREFIX"):]
				}
			}
			return e
		})
		if perr != nil {
			w.Eval(1)
			w.Violation("C10/Iter.MarshalJSON/error", fmt.Sprintf("root iterator (variant %d) MarshalJSON failed: %v; %s", variant, perr, ctx), cs)
			return
		}
		if !w.c10Text("Iter.MarshalJSON", text, want, cs, ctx, variant == 0) {
			return
		}
		if bytes.ContainsAny(text, "\\{[") {
			nontrivial = true
		}
	}
	// inner values: single-value scoped iterators and containers
	locs := allLocs(want, 600)
	tried := 0
	for _, l := range locs {
		if tried >= 14 {
			break
		}
		if len(locs) > 14 && !r.Chance(14, len(locs)) {
			continue
		}
		tried++
		mv := modelAt(want, l)
		find := r.Bool()
		routeName := "AdvanceIter+NextElementBytes"
		if find {
			routeName = "AdvanceIter+FindKey"
		}
		if len(l.Path) == 0 {
			continue
		}
		var text []byte
		var lerr error
		perr := walk.Guard(func() error {
			// only iterators whose scope is exactly one value are in the property's scope
			it, err := locateScoped(pj, l, find, want)
			if err != nil {
				lerr = err
				return nil
			}
			var e error
			text, e = it.MarshalJSON()
			return e
		})
		if lerr != nil {
			continue
		}
		if perr != nil {
			w.Eval(1)
			w.Violation("C10/inner-Iter.MarshalJSON/error/"+routeName+"/"+mv.K.String(), fmt.Sprintf("MarshalJSON on the iterator for %v (%s) failed: %v; %s", l, routeName, perr, ctx), cs)
			continue
		}
		w.Count("inner_iterators_marshalled", 1)
		w.c10Text("inner-Iter.MarshalJSON", text, []*ref.Value{mv}, cs, fmt.Sprintf("value at %v via %s; %s", l, routeName, ctx), mv.K == ref.Array || mv.K == ref.Object)
		// container marshallers
		if mv.K == ref.Array {
			var at []byte
			perr := walk.Guard(func() error {
				it, err := locateInto(pj, l)
				if err != nil {
					return err
				}
				a, err := it.Array(&c10Arr) // a recycled destination (other documents, other string modes)
				if err != nil {
					return err
				}
				first, err := a.MarshalJSON()
				if err != nil {
					return err
				}
				// marshalling reads: the same handle gives the same text again
				at, err = a.MarshalJSONBuffer([]byte("PFX"))
				if err == nil {
					if !bytes.HasPrefix(at, []byte("PFX")) {
						return fmt.Errorf("Array.MarshalJSONBuffer did not append to the destination")
					}
					at = at[3:]
					if !bytes.Equal(first, at) {
						return fmt.Errorf("second marshal of the same Array gives %s, the first gave %s", q(at), q(first))
					}
				} else {
					err = fmt.Errorf("second marshal of the same Array: %w", err)
				}
				return err
			})
			if perr != nil {
				w.Eval(1)
				w.Violation("C10/Array.MarshalJSON/error", fmt.Sprintf("Array.MarshalJSON at %v failed: %v; %s", l, perr, ctx), cs)
			} else {
				w.c10Text("Array.MarshalJSON", at, []*ref.Value{mv}, cs, fmt.Sprintf("array at %v; %s", l, ctx), true)
			}
		}
		if mv.K == ref.Object {
			var ot []byte
			perr := walk.Guard(func() error {
				it, err := locateInto(pj, l)
				if err != nil {
					return err
				}
				o, err := it.Object(nil)
				if err != nil {
					return err
				}
				els, err := o.Parse(nil)
				if err != nil {
					return err
				}
				first, err := els.MarshalJSON()
				if err != nil {
					return err
				}
				ot, err = els.MarshalJSONBuffer([]byte("PFX"))
				if err == nil {
					if !bytes.HasPrefix(ot, []byte("PFX")) {
						return fmt.Errorf("Elements.MarshalJSONBuffer did not append to the destination")
					}
					ot = ot[3:]
					if !bytes.Equal(first, ot) {
						return fmt.Errorf("second marshal of the same Elements gives %s, the first gave %s", q(ot), q(first))
					}
				} else {
					err = fmt.Errorf("second marshal of the same Elements: %w", err)
				}
				return err
			})
			if perr != nil {
				w.Eval(1)
				w.Violation("C10/Elements.MarshalJSON/error", fmt.Sprintf("Elements.MarshalJSON at %v failed: %v; %s", l, perr, ctx), cs)
			} else {
				w.c10Text("Elements.MarshalJSON", ot, []*ref.Value{mv}, cs, fmt.Sprintf("object at %v; %s", l, ctx), true)
			}
		}
	}
	return
}

// c10NonFinite: a non-finite float anywhere must make every marshaller fail.
func (w *W) c10NonFinite(pj *simdjson.ParsedJson, want []*ref.Value, cs *ev.Case, ctx string, r *gen.Rand) {
	locs := allLocs(want, 600)
	var cand []Loc
	for _, l := range locs {
		v := modelAt(want, l)
		if v.K == ref.Int || v.K == ref.Uint || v.K == ref.Float || v.K == ref.String {
			cand = append(cand, l)
		}
	}
	if len(cand) == 0 {
		return
	}
	l := cand[r.Intn(len(cand))]
	f := []float64{math.Inf(1), math.Inf(-1), math.NaN()}[r.Intn(3)]
	cl := pj.Clone(nil)
	perr := walk.Guard(func() error {
		it, err := locateInto(cl, l)
		if err != nil {
			return err
		}
		return it.SetFloat(f)
	})
	if perr != nil {
		return
	}
	w.Eval(1)
	var out []byte
	var merr error
	perr = walk.Guard(func() error {
		it := cl.Iter()
		out, merr = it.MarshalJSON()
		return nil
	})
	if perr != nil {
		w.Violation("C10/non-finite/panic", fmt.Sprintf("MarshalJSON panicked on a tape holding %v: %v; %s", f, perr, ctx), cs)
		return
	}
	if merr == nil {
		w.Violation("C10/non-finite/no-error", fmt.Sprintf("MarshalJSON of a tape holding %v at %v returned %s without error; %s", f, l, q(out), ctx), cs)
		return
	}
	if len(out) != 0 {
		// An error together with partial bytes: must not be mistaken for output. Counted.
		w.Count("non_finite_error_with_partial_bytes_(observed)", 1)
	}
	w.Count("non_finite_rejected", 1)
	// container marshallers on the parent
	if p, _, ok := parentOf(l); ok {
		pv := modelAt(want, p)
		perr = walk.Guard(func() error {
			it, err := locateInto(cl, p)
			if err != nil {
				return nil
			}
			if pv.K == ref.Array {
				a, err := it.Array(nil)
				if err != nil {
					return nil
				}
				if b, err := a.MarshalJSON(); err == nil {
					return fmt.Errorf("Array.MarshalJSON returned %s", q(b))
				}
			} else {
				o, err := it.Object(nil)
				if err != nil {
					return nil
				}
				els, err := o.Parse(nil)
				if err != nil {
					return nil
				}
				if b, err := els.MarshalJSON(); err == nil {
					return fmt.Errorf("Elements.MarshalJSON returned %s", q(b))
				}
			}
			return nil
		})
		if perr != nil {
			w.Violation("C10/non-finite/container-no-error", fmt.Sprintf("with %v at %v: %v; %s", f, l, perr, ctx), cs)
		}
	}
}

func (w *W) c10Judge(st *histState, g string, doc []byte, nd bool, hseed int64, nedits int) {
	st.idx++
	if !w.mine(st.idx) {
		return
	}
	cs := &ev.Case{Gen: g, Input: doc, A: hseed, B: int64(nedits), C: int64(b2i(nd))}
	w.Journal(cs)
	if w.Skip() {
		return
	}
	var want []*ref.Value
	maxDepth := 0
	if nd {
		lines, _ := ref.SplitLines(doc)
		for _, ln := range lines {
			a := ref.Analyze(ln)
			if a.Class != ref.MustAccept {
				return
			}
			want = append(want, a.Value)
		}
		if len(want) == 0 {
			return
		}
	} else {
		a := ref.Analyze(doc)
		if a.Class != ref.MustAccept {
			w.Count("skipped_docs", 1)
			return
		}
		want = []*ref.Value{a.Value}
		maxDepth = a.Info.MaxDepth
	}
	if maxDepth > 90 {
		// MarshalJSON is iterative; the reader matrix pieces used here are not needed. Only root marshal.
		nedits = 0
	}
	st.n++
	r := gen.New(uint64(hseed), "c10")
	cfg := w.configs()[r.Intn(len(w.configs()))]
	p, err, pan := w.parseGuarded(doc, cfg, nd, false)
	if pan != nil || err != nil {
		w.Count("valid_doc_rejected_by_parse_(C01)", 1)
		return
	}
	pj := p.Clone(nil)
	roots := make([]*ref.Value, len(want))
	for i := range want {
		roots[i] = ref.Clone(want[i])
	}
	ctx := fmt.Sprintf("doc=%s config=%s", q(doc), cfg)
	var trace []string
	for e := 0; e < nedits; e++ {
		locs := allLocs(roots, 800)
		l := locs[r.Intn(len(locs))]
		cur := modelAt(roots, l)
		if (cur.K == ref.Array || cur.K == ref.Object) && len(cur.A)+len(cur.Vals) > 0 && r.Chance(2, 3) {
			d := delOp{L: l, Mask: r.Uint64() | 1<<uint(r.Intn(8))}
			if r.Chance(1, 5) {
				d.Mask = ^uint64(0)
			}
			trace = append(trace, fmt.Sprintf("%v:%s", l, d.desc(cur)))
			var bad string
			perr := walk.Guard(func() error { bad = doDelete(pj, roots, d); return nil })
			if perr != nil || bad != "" {
				w.Count("edit_failed_(C14)", 1)
				return
			}
			continue
		}
		if len(l.Path) == 0 {
			continue
		}
		op := randSetOp(r)
		trace = append(trace, fmt.Sprintf("%v:%s", l, op))
		route := routeInto
		if r.Chance(1, 3) {
			route = routeElems // the edit goes through an Element of parsed Elements, which are marshalled afterwards
		}
		bad, _ := doSet(pj, roots, l, op, route)
		if bad != "" {
			if strings.Contains(bad, "the same Elements marshal") || strings.Contains(bad, "MarshalJSON of the same Elements") {
				w.Violation("C10/Elements.MarshalJSON/after-edit-through-its-element/"+setNames[op.Kind], fmt.Sprintf("%s; doc=%s %s edits=%v", bad, q(doc), ctx, lastN(trace, 6)), cs)
				return
			}
			w.Count("edit_failed_(C13)", 1)
			return
		}
	}
	if len(trace) > 0 {
		ctx += fmt.Sprintf(" edits=%v", lastN(trace, 6))
		w.Count("edited_tapes", 1)
	}
	nt := w.c10Check(pj, roots, cs, ctx, r)
	if !nd {
		w.c10NonFinite(pj, roots, cs, ctx, r)
	}
	if nt {
		w.Nontrivial(gen.Hash64(doc, []byte(fmt.Sprint(hseed, nedits, nd))))
	}
	if w.WantSample() {
		w.Sample(map[string]interface{}{"gen": g, "doc": q(doc), "ndjson": nd, "edits": lastN(trace, 6)})
	}
}

func runC10(w *W) {
	st := &histState{}
	th := w.thorough()
	seed := int64(w.Out.Seed) * 9000011
	k := int64(0)
	next := func() int64 { k++; return seed + k }
	// strings with every byte that needs escaping, adjacent to every other
	esc := []byte{'"', '\\', '/', '\b', '\f', '\n', '\r', '\t', 0x00, 0x01, 0x1f, 0x7f, ' ', 'a', '<', '>', '&'}
	for _, a := range esc {
		for _, b := range esc {
			var lit bytes.Buffer
			lit.WriteByte('"')
			for _, c := range []byte{a, b, a} {
				switch {
				case c == '"' || c == '\\' || c == '/':
					lit.WriteByte('\\')
					lit.WriteByte(c)
				case c < 0x20:
					fmt.Fprintf(&lit, `\u%04x`, c)
				default:
					lit.WriteByte(c)
				}
			}
			lit.WriteByte('"')
			s := lit.String()
			w.c10Judge(st, "escape-pairs", []byte(`[`+s+`,{`+s+`:`+s+`}]`), false, next(), 0)
		}
	}
	for c := 0; c < 256; c++ {
		var s string
		switch {
		case c < 0x20 || c == '"' || c == '\\':
			s = fmt.Sprintf(`\u%04x`, c)
		case c < 0x80:
			s = string(rune(c))
		default:
			s = string(rune(c)) + string(rune(0x700+c)) + string(rune(0x10000+c*17))
		}
		w.c10Judge(st, "every-byte", []byte(`{"k`+s+`":"v`+s+s+`","a":["`+s+`"]}`), false, next(), 0)
	}
	// numbers of every kind
	var nums []string
	for _, n := range boundaryNumbers {
		nums = append(nums, n)
	}
	for i := 0; i+4 <= len(nums); i += 4 {
		w.c10Judge(st, "numbers", []byte(`[`+strings.Join(nums[i:i+4], ",")+`,{"n":`+nums[i]+`}]`), false, next(), 0)
	}
	// valid documents: fresh
	scale := 6
	if th {
		scale = 80
	}
	w.eachValidDoc(scale, func(g string, doc []byte) {
		if len(doc) > 2<<20 {
			return
		}
		w.c10Judge(st, g, doc, false, next(), 0)
	})
	w.eachNDInput(scale, func(g string, in []byte) { w.c10Judge(st, g, in, true, next(), 0) })
	// after edit histories
	n := 20000
	if th {
		n = 400000
	}
	w.editDocs(n, func(g string, doc []byte, k int) {
		w.c10Judge(st, g, doc, false, next(), 1+k%6)
	})
	// edited NDJSON
	w.eachNDInput(1, func(g string, in []byte) {
		if len(in) < 4000 {
			w.c10Judge(st, g+"-edited", in, true, next(), 3)
		}
	})
}

var boundaryNumbers = []string{
	"0", "-0", "1", "-1", "0.0", "-0.0", "0e0", "-0e0", "1.5", "-1.5", "1e2", "1E2", "1e-2", "100", "1e21", "1e20", "1e-6", "1e-7", "123456789012345678", "9223372036854775807", "9223372036854775808", "-9223372036854775808", "-9223372036854775809", "18446744073709551615", "18446744073709551616", "1.7976931348623157e308", "5e-324", "2.2250738585072014e-308", "0.1", "0.30000000000000004", "9007199254740993", "9007199254740992.0", "1e300", "-1e-300", "123456789.123456789", "4.35", "0.000001", "0.0000001", "100000000000000000000", "1000000000000000000000", "12345678901234567890123", "1.0", "2.50", "1e0", "-1E+0",
}

func replayC10(w *W, cs *ev.Case) {
	w.Out.NShards = 1
	w.c10Judge(&histState{}, cs.Gen, cs.Input, cs.C == 1, cs.A, int(cs.B))
}
