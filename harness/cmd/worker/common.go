package main

import (
	"fmt"
	"strconv"
	"strings"

	"github.com/klauspost/cpuid/v2"
	simdjson "github.com/minio/simdjson-go"

	"verifharness/ev"
	"verifharness/gen"
	"verifharness/guard"
	"verifharness/walk"
)

// W is the worker state shared by all property runners.
type W struct {
	*ev.Ctx
	hasAVX512 bool
	reuse     [8]reuseSlot // [bank*2+copy]; bank 0 main, 1 minimiser, 2/3 differential pairs
	region    *guard.Region
}

type reuseSlot struct {
	pj  simdjson.ParsedJson
	has bool
}

func newW(ctx *ev.Ctx) *W {
	w := &W{Ctx: ctx, hasAVX512: cpuid.CPU.Has(cpuid.AVX512F)}
	// recycled Object/Array destinations in the walkers: every driver but C20 walks from one goroutine
	walk.SharedDst = ctx.Out.Property != "C20"
	if ctx.Out.Property == "C20" && (ctx.Out.Mode == "coldstart") {
		return w // nothing may touch the library before the trial
	}
	// warm the reuse slots so that rejected inputs reuse too
	for bank := 0; bank < 4; bank++ {
		for _, c := range []bool{false, true} {
			w.parseSlot([]byte(`{"warm":["up",1]}`), Config{false, c}, false, false, bank)
		}
	}
	return w
}

func (w *W) thorough() bool { return w.Out.Tier == "thorough" }

// mine reports whether case index i belongs to this shard.
func (w *W) mine(i int) bool {
	if w.Out.NShards <= 1 {
		return true
	}
	// hashed so that shard membership is uncorrelated with enumeration digits
	h := uint64(i) * 0x9E3779B97F4A7C15
	return int((h>>33)%uint64(w.Out.NShards)) == w.Out.Shard
}

// rng derives a PRNG from the run seed and keys (independent of sharding).
func (w *W) rng(keys ...interface{}) *gen.Rand {
	return gen.New(w.Out.Seed, append([]interface{}{w.Out.Property}, keys...)...)
}

// setKernel selects the stage-1 kernel family; false if not available.
func (w *W) setKernel(avx512 bool) bool {
	if avx512 {
		if !w.hasAVX512 {
			return false
		}
		cpuid.CPU.Enable(cpuid.AVX512F)
		return true
	}
	cpuid.CPU.Disable(cpuid.AVX512F)
	return true
}

// Config is one point of the kernel x string-mode matrix.
type Config struct {
	AVX512 bool
	Copy   bool
}

func (c Config) String() string {
	k := "avx2"
	if c.AVX512 {
		k = "avx512"
	}
	m := "nocopy"
	if c.Copy {
		m = "copy"
	}
	return k + "/" + m
}

// configs returns the matrix available on this CPU.
func (w *W) configs() []Config {
	out := []Config{{false, true}, {false, false}}
	if w.hasAVX512 {
		out = append(out, Config{true, true}, Config{true, false})
	}
	return out
}

// configsAlt is configs() in reverse order for odd n. Reuse slots are keyed by string mode, so with
// the order flipped from one document to the next the last parse of document n and the first of
// document n+1 go into the same recycled object, back to back (recycled destinations of the walkers
// then meet a new document in the very buffers they last looked at).
func (w *W) configsAlt(n int) []Config {
	c := w.configs()
	if n%2 == 1 {
		for i, j := 0, len(c)-1; i < j; i, j = i+1, j-1 {
			c[i], c[j] = c[j], c[i]
		}
	}
	return c
}

// parse runs Parse/ParseND with a reused ParsedJson passed by value (so the
// internal state survives failed calls), or fresh when fresh is set.
// The result aliases the reused buffers: use it before the next call.
func (w *W) parse(b []byte, cfg Config, nd bool, fresh bool) (pj *simdjson.ParsedJson, err error) {
	return w.parseSlot(b, cfg, nd, fresh, 0)
}

func (w *W) parseSlot(b []byte, cfg Config, nd bool, fresh bool, bank int) (pj *simdjson.ParsedJson, err error) {
	w.setKernel(cfg.AVX512)
	slot := &w.reuse[bank*2+b2i(cfg.Copy)]
	var r *simdjson.ParsedJson
	var cp simdjson.ParsedJson
	if !fresh && slot.has {
		cp = slot.pj
		r = &cp
	}
	if nd {
		pj, err = simdjson.ParseND(b, r, simdjson.WithCopyStrings(cfg.Copy))
	} else {
		pj, err = simdjson.Parse(b, r, simdjson.WithCopyStrings(cfg.Copy))
	}
	if err == nil && pj != nil && !fresh && !nd {
		slot.pj = *pj
		slot.has = true
	}
	return
}

// parseGuarded is parse under recover.
func (w *W) parseGuarded(b []byte, cfg Config, nd bool, fresh bool) (pj *simdjson.ParsedJson, err error, pan error) {
	pan = walk.Guard(func() error {
		pj, err = w.parse(b, cfg, nd, fresh)
		return nil
	})
	// The exported slices of a result are ordinary slices. A slice whose length exceeds its capacity
	// can only come from the assembly string kernel having been handed a destination that was too
	// small for what it stored (it returns the new length; stores beyond a heap allocation fault
	// nowhere). Reported like a panic: the call wrote outside its buffers.
	if pan == nil && err == nil && pj != nil {
		if pj.Strings != nil && len(pj.Strings.B) > cap(pj.Strings.B) {
			pan = fmt.Errorf("write outside the string buffer: Strings.B has length %d and capacity %d after the call", len(pj.Strings.B), cap(pj.Strings.B))
		}
		if len(pj.Tape) > cap(pj.Tape) {
			pan = fmt.Errorf("Tape has length %d and capacity %d after the call", len(pj.Tape), cap(pj.Tape))
		}
	}
	return
}

// parseMin is the parse used by minimisation predicates: reused objects of its
// own, so that shrinking neither disturbs nor depends on the main slots.
func (w *W) parseMin(b []byte, cfg Config, nd bool) (pj *simdjson.ParsedJson, err error, pan error) {
	pan = walk.Guard(func() error {
		pj, err = w.parseSlot(b, cfg, nd, false, 1)
		return nil
	})
	return
}

func b2i(b bool) int {
	if b {
		return 1
	}
	return 0
}

// guardRegion lazily maps the shared guard-page region.
func (w *W) guardRegion(n int) *guard.Region {
	if w.region != nil && w.region.Size() >= n {
		return w.region
	}
	if w.region != nil {
		w.region.Free()
	}
	sz := 1 << 20
	for sz < n {
		sz <<= 1
	}
	r, err := guard.New(sz)
	if err != nil {
		w.Inconclusive("guard region: " + err.Error())
		return nil
	}
	w.region = r
	return r
}

// q renders bytes for keys, samples and details.
func q(b []byte) string {
	if len(b) > 96 {
		return nosp(strconv.Quote(string(b[:64]))) + fmt.Sprintf("...(%d-bytes,hash=%016x)", len(b), gen.Hash64(b))
	}
	return nosp(strconv.Quote(string(b)))
}

// nosp keeps witness keys free of blanks (they are matched token-wise).
func nosp(s string) string { return strings.ReplaceAll(s, " ", `\x20`) }

// minimize shrinks input while pred keeps holding. Deterministic, bounded.
func minimize(input []byte, pred func([]byte) bool, budget int) []byte {
	cur := append([]byte{}, input...)
	evals := 0
	try := func(c []byte) bool {
		if evals >= budget {
			return false
		}
		evals++
		return pred(c)
	}
	// chunk removal
	for chunk := len(cur) / 2; chunk >= 1; chunk /= 2 {
		for i := 0; i+chunk <= len(cur); {
			c := append(append([]byte{}, cur[:i]...), cur[i+chunk:]...)
			if try(c) {
				cur = c
			} else {
				i += chunk
			}
			if evals >= budget {
				return cur
			}
		}
	}
	// small inputs: every span of up to 8 bytes at every position, to fixpoint
	for changed := true; changed && evals < budget && len(cur) <= 64; {
		changed = false
		for n := 8; n >= 2; n-- {
			for i := 0; i+n <= len(cur); i++ {
				c := append(append([]byte{}, cur[:i]...), cur[i+n:]...)
				if try(c) {
					cur = c
					changed = true
					i--
				}
			}
		}
	}
	// repeat single-byte removal until fixpoint
	for changed := true; changed && evals < budget; {
		changed = false
		for i := 0; i < len(cur); {
			c := append(append([]byte{}, cur[:i]...), cur[i+1:]...)
			if try(c) {
				cur = c
				changed = true
			} else {
				i++
			}
		}
	}
	// simplify bytes
	for i := 0; i < len(cur) && evals < budget && len(cur) <= 256; i++ {
		for _, s := range []byte{'0', 'a', ' '} {
			if cur[i] == s || cur[i] == '"' || cur[i] == '[' || cur[i] == ']' || cur[i] == '{' || cur[i] == '}' {
				continue
			}
			c := append([]byte{}, cur...)
			c[i] = s
			if try(c) {
				cur = c
				break
			}
		}
	}
	return cur
}
