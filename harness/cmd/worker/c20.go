package main

import (
	"bytes"
	"encoding/binary"
	"fmt"
	"io"
	"math"
	"os"
	"path/filepath"
	"runtime"
	"sync"
	"sync/atomic"

	simdjson "github.com/minio/simdjson-go"

	"verifharness/ev"
	"verifharness/gen"
	"verifharness/walk"
)

func init() { register("C20", runC20, replayC20) }

var (
	c20InFlight  atomic.Int64
	c20MaxFlight atomic.Int64
	c20SumFlight atomic.Int64
	c20Calls     atomic.Int64
	c20PoolOver  atomic.Int64
	c20PoolIn    atomic.Int64
)

func enter(pool bool) {
	n := c20InFlight.Add(1)
	for {
		m := c20MaxFlight.Load()
		if n <= m || c20MaxFlight.CompareAndSwap(m, n) {
			break
		}
	}
	c20SumFlight.Add(n)
	c20Calls.Add(1)
	if pool {
		if c20PoolIn.Add(1) > 1 {
			c20PoolOver.Add(1)
		}
	}
}

func leave(pool bool) {
	c20InFlight.Add(-1)
	if pool {
		c20PoolIn.Add(-1)
	}
}

type transcript struct {
	h      uint64
	ops    int
	log    []string
	broken string // an invariant that failed inside the program itself (solo or concurrent)
}

func (t *transcript) add(op string, parts ...[]byte) {
	t.h = gen.Hash64(append([][]byte{[]byte(fmt.Sprint(t.h)), []byte(op)}, parts...)...)
	t.ops++
	if len(t.log) < 400 {
		t.log = append(t.log, fmt.Sprintf("%s:%016x", op, t.h))
	}
}

// c20Program runs the seeded program of one goroutine on its own objects.
func c20Program(seed uint64, steps int) *transcript {
	r := gen.New(seed, "c20prog")
	t := &transcript{}
	var cur *simdjson.ParsedJson
	ser := simdjson.NewSerializer()
	var serDst, prevDeser *simdjson.ParsedJson
	var prevDump []byte
	docOf := func() ([]byte, bool) {
		size := []int{30, 300, 3000, 9000, 40000}[r.Intn(5)]
		bad := r.Chance(1, 6)
		var d []byte
		if r.Chance(1, 12) {
			// index-dense and large: 15..60 index buffers, i.e. more than the hand-off channel of one
			// parser holds; with more such parses in flight than there are processors
			d = gen.Aperiodic(r.Split(), 1408*3/2*r.Range(15, 60), 2)
		} else {
			d = gen.Doc(r.Split(), gen.DocCfg{Size: size, MaxDepth: 4, MaxFan: 6, WS: r.Intn(2), Esc: 25, LongStr: 10, DupKeys: true})
		}
		if bad {
			d = gen.Mutate(r.Split(), d)
		}
		return d, bad
	}
	for s := 0; s < steps; s++ {
		switch op := r.Intn(24); {
		case op < 6: // Parse (reusing this goroutine's own object half of the time)
			d, _ := docOf()
			cp := r.Bool()
			var reuse *simdjson.ParsedJson
			if r.Bool() {
				reuse = cur
			}
			enter(false)
			pj, err := simdjson.Parse(d, reuse, simdjson.WithCopyStrings(cp))
			leave(false)
			if err != nil {
				t.add("parse-err")
				if reuse != nil {
					cur = nil
				}
				continue
			}
			cur = pj
			it := pj.Iter()
			enter(false)
			txt, merr := it.MarshalJSON()
			leave(false)
			t.add("parse", txt, []byte(fmt.Sprint(merr)))
		case op < 9 && cur != nil && r.Chance(1, 3):
			// a goroutine's own object handed in by value (the parser state stays attached whatever
			// the outcome): a large document that stage 2 rejects at its first token while stage 1 has
			// dozens of index buffers to go, and straight after it a valid document into the same object
			held := *cur
			bad := append([]byte("[tru,"), gen.Aperiodic(r.Split(), 1408*3/2*r.Range(18, 40), 2)[1:]...)
			enter(false)
			_, e1 := simdjson.Parse(bad, &held)
			d2 := gen.Aperiodic(r.Split(), []int{60, 4500, 30000}[r.Intn(3)], r.Intn(3))
			pj2, e2 := simdjson.Parse(d2, &held)
			leave(false)
			var txt []byte
			if e2 == nil {
				it := pj2.Iter()
				txt, _ = it.MarshalJSON()
			}
			t.add("reject-then-parse-by-value", []byte(fmt.Sprint(e1 != nil, e2 != nil)), txt)
			cur = nil
		case op < 9: // ParseND
			var b bytes.Buffer
			for i := 0; i < 1+r.Intn(40); i++ {
				b.Write(gen.Doc(r.Split(), gen.DocCfg{Size: 20 + r.Intn(400), MaxDepth: 3, MaxFan: 4, Esc: 20, NoLF: true}))
				b.WriteByte('\n')
			}
			enter(false)
			pj, err := simdjson.ParseND(b.Bytes(), nil)
			leave(false)
			if err != nil {
				t.add("parsend-err")
				continue
			}
			roots, werr := walk.Into(pj)
			t.add("parsend", dumpRoots(roots), []byte(fmt.Sprint(werr)))
		case op < 10: // ParseNDStream (every call allocates two 10 MiB buffers: kept rare)
			var b bytes.Buffer
			for i := 0; i < 2+r.Intn(30); i++ {
				b.Write(gen.Doc(r.Split(), gen.DocCfg{Size: 20 + r.Intn(300), MaxDepth: 3, MaxFan: 4, Esc: 20, NoLF: true}))
				b.WriteByte('\n')
			}
			rd := &fragReader{data: b.Bytes(), r: r.Split(), max: 50 + r.Intn(2000)}
			res := make(chan simdjson.Stream, 2)
			reuse := make(chan *simdjson.ParsedJson, 2)
			enter(false)
			simdjson.ParseNDStream(rd, res, reuse)
			var all []byte
			final := "none"
			for v := range res {
				if v.Error != nil {
					if v.Error == io.EOF {
						final = "eof"
					} else {
						final = "error"
					}
					continue
				}
				roots, werr := walk.Into(v.Value)
				all = append(all, dumpRoots(roots)...)
				all = append(all, fmt.Sprint(werr)...)
				select {
				case reuse <- v.Value:
				default:
				}
			}
			leave(false)
			t.add("stream", all, []byte(final))
		case op < 14: // traversal of the current object through two routes
			if cur == nil {
				continue
			}
			enter(false)
			a, ea := walk.Into(cur)
			b2, eb := walk.Adv(cur)
			leave(false)
			t.add("walk", dumpRoots(a), dumpRoots(b2), []byte(fmt.Sprint(ea, eb)))
		case op < 18: // Clone + edit
			if cur == nil {
				continue
			}
			enter(false)
			cl := cur.Clone(nil)
			it := cl.Iter()
			n := 0
			for {
				tag := it.AdvanceInto()
				if tag == simdjson.TagEnd || n > 60 {
					break
				}
				n++
				switch tag {
				case simdjson.TagString:
					if r.Chance(1, 2) {
						it.SetString(fmt.Sprintf("edit-%d-%d", seed%1000, n))
					}
				case simdjson.TagInteger, simdjson.TagUint, simdjson.TagFloat:
					if r.Chance(1, 2) {
						it.SetInt(int64(n))
					}
				}
			}
			ci := cl.Iter()
			ct, e1 := ci.MarshalJSON()
			oi := cur.Iter()
			ot, e2 := oi.MarshalJSON()
			leave(false)
			t.add("clone-edit", ct, ot, []byte(fmt.Sprint(e1, e2)))
			if r.Chance(1, 3) {
				// a marshal call that fails half-way, deep inside containers (a non-finite float in the
				// clone): whatever the failed call had in its hands must not reach a later call, of
				// this goroutine or of another one
				cl2 := cur.Clone(nil)
				it2 := cl2.Iter()
				depth, placed := 0, false
				for k := 0; k < 400 && !placed; k++ {
					switch it2.AdvanceInto() {
					case simdjson.TagEnd:
						k = 400
					case simdjson.TagObjectStart, simdjson.TagArrayStart:
						depth++
					case simdjson.TagObjectEnd, simdjson.TagArrayEnd:
						depth--
					case simdjson.TagInteger, simdjson.TagUint, simdjson.TagFloat:
						if depth >= 2 && it2.SetFloat(math.Inf(1)) == nil {
							placed = true
						}
					}
				}
				if placed {
					enter(false)
					fi := cl2.Iter()
					_, ferr := fi.MarshalJSON()
					oi3 := cur.Iter()
					ot3, e4 := oi3.MarshalJSON()
					leave(false)
					t.add("marshal-non-finite", []byte(fmt.Sprint(ferr != nil)), ot3, []byte(fmt.Sprint(e4)))
					if e2 == nil && (e4 != nil || !bytes.Equal(ot, ot3)) {
						t.add("MARSHAL-AFTER-A-FAILED-MARSHAL-DIFFERS")
						t.broken = fmt.Sprintf("after a MarshalJSON call that failed on a non-finite float inside nested containers, marshalling an untouched document of the same goroutine gives (%v) instead of what it gave before", e4)
					}
				}
			}
			if r.Chance(1, 2) {
				// the clone is this goroutine's own object: handing it to Parse as the reuse
				// argument must leave the original alone
				d, _ := docOf()
				enter(false)
				_, perr := simdjson.Parse(d, cl)
				oi2 := cur.Iter()
				ot2, e3 := oi2.MarshalJSON()
				leave(false)
				t.add("parse-into-clone", ot2, []byte(fmt.Sprint(perr == nil, e3)))
				if !bytes.Equal(ot, ot2) {
					t.add("ORIGINAL-CHANGED-BY-PARSE-INTO-CLONE")
					t.broken = "after Parse(doc, clone) the original exposes another document"
				}
			}
		default: // Serialize / Deserialize in a random mode, destination reused
			if cur == nil {
				continue
			}
			mode := compModes[r.Intn(4)]
			ser.CompressMode(mode)
			pool := mode != simdjson.CompressNone
			src := *cur
			enter(pool)
			blob := ser.Serialize(nil, src)
			// the bytes themselves are a result: the encoders are deterministic for a given mode
			t.add(fmt.Sprintf("blob-mode%d", mode), []byte(fmt.Sprintf("%d:%016x", len(blob), gen.Hash64(blob))))
			if r.Chance(1, 5) && len(blob) > 16 {
				// a damaged copy first: failed decodes must not poison what later calls share
				// (damage at the very end: the error comes late, after the string and message blocks
				// have been handed to their decoder; the destination is used again at once)
				bad := append([]byte{}, blob...)
				switch r.Intn(3) {
				case 0:
					for i := 1; i <= 6; i++ {
						bad[len(bad)-i] ^= 0x5a
					}
				case 1:
					bad = bad[:len(bad)-1-r.Intn(8)]
				default:
					bad = bad[:len(bad)/2]
				}
				// (not when the flipped bytes were a size varint that now declares gigabytes: the call
				// would allocate them; decided from the bytes alone, so the same in the solo run)
				if damageAllocatable(blob, bad) {
					_, derr := ser.Deserialize(bad, serDst)
					t.add("deser-damaged", []byte(fmt.Sprint(derr != nil)))
				}
			}
			out, err := ser.Deserialize(blob, serDst)
			leave(pool)
			if err != nil {
				t.add("ser-err", []byte(err.Error()))
				continue
			}
			roots, werr := walk.Into(out)
			t.add(fmt.Sprintf("ser-mode%d", mode), dumpRoots(roots), []byte(fmt.Sprint(werr)))
			if prevDeser != nil && prevDeser != out && r.Chance(1, 2) {
				// string edits on this deserialized object must not show in another one
				before := append([]byte{}, prevDump...)
				it := out.Iter()
				n := 0
				for {
					tag := it.AdvanceInto()
					if tag == simdjson.TagEnd || n > 30 {
						break
					}
					n++
					if tag == simdjson.TagString && r.Chance(1, 2) {
						it.SetString(fmt.Sprintf("deser-edit-%d", n))
					}
				}
				pr, perr2 := walk.Into(prevDeser)
				now := append(dumpRoots(pr), fmt.Sprint(perr2)...)
				if !bytes.Equal(before, now) {
					t.add("OTHER-DESERIALIZED-OBJECT-CHANGED")
					t.broken = "SetString on one deserialized object changed another deserialized object"
				}
				o2, e2 := walk.Into(out)
				t.add("deser-edit", dumpRoots(o2), []byte(fmt.Sprint(e2)))
			}
			{
				pr, perr2 := walk.Into(out)
				prevDeser, prevDump = out, append(dumpRoots(pr), fmt.Sprint(perr2)...)
			}
			if r.Bool() {
				serDst = out
				prevDeser = nil // it will be overwritten by the next Deserialize
			} else {
				serDst = nil
			}
		}
	}
	return t
}

func (w *W) c20Round(round int, n, procs, steps int) {
	seedBase := w.Out.Seed*1000003 + uint64(round)*4099
	cs := &ev.Case{Gen: "c20-round", A: int64(round), B: int64(n), C: int64(procs), D: 0, Text: fmt.Sprintf("goroutines=%d,GOMAXPROCS=%d,steps=%d", n, procs, steps)}
	w.Journal(cs)
	if w.Skip() {
		return
	}
	runtime.GOMAXPROCS(procs)
	// solo transcripts first
	solo := make([]*transcript, n)
	for g := 0; g < n; g++ {
		solo[g] = c20Program(seedBase+uint64(g), steps)
	}
	// together behind a barrier
	conc := make([]*transcript, n)
	var wg sync.WaitGroup
	start := make(chan struct{})
	for g := 0; g < n; g++ {
		g := g
		wg.Add(1)
		go func() {
			defer wg.Done()
			<-start
			conc[g] = c20Program(seedBase+uint64(g), steps)
		}()
	}
	close(start)
	wg.Wait()
	for g := 0; g < n; g++ {
		for _, t := range []*transcript{solo[g], conc[g]} {
			if t.broken != "" {
				w.Violation("C20/own-objects-interfere", fmt.Sprintf("goroutine %d of %d: %s", g, n, t.broken), cs)
			}
		}
	}
	for g := 0; g < n; g++ {
		w.Eval(1)
		if conc[g].h != solo[g].h || conc[g].ops != solo[g].ops {
			// first differing operation
			where := "?"
			for i := range solo[g].log {
				if i >= len(conc[g].log) || conc[g].log[i] != solo[g].log[i] {
					where = fmt.Sprintf("operation %d (%s)", i, solo[g].log[i][:len(solo[g].log[i])-17])
					break
				}
			}
			w.Violation("C20/transcript-differs/"+firstWords(where[len("operation "):], 2), fmt.Sprintf("goroutine %d of %d (GOMAXPROCS %d) got different results running concurrently than running alone, first at %s", g, n, procs, where), cs)
		}
	}
	w.Count("rounds", 1)
	w.Count("programs", n)
	ops := 0
	for _, t := range solo {
		ops += t.ops
	}
	w.Count("operations_per_side", ops)
	w.Nontrivial(gen.Hash64([]byte(cs.Text), []byte(fmt.Sprint(round))))
	if w.WantSample() {
		w.Sample(map[string]interface{}{"round": round, "goroutines": n, "GOMAXPROCS": procs, "steps": steps, "first_ops": solo[0].log[:min(6, len(solo[0].log))]})
	}
}

func min(a, b int) int {
	if a < b {
		return a
	}
	return b
}

// Cold start: the first use of the package's shared serializer state happens
// in many goroutines at once (one trial per process life).
func (w *W) c20ColdStart() {
	dir := filepath.Dir(w.OutPath)
	raw, err := os.ReadFile(filepath.Join(dir, "c20-blobs.bin"))
	if err != nil {
		w.Inconclusive("cold start: no blob file: " + err.Error())
		return
	}
	type item struct{ blob, dump []byte }
	var items []item
	for len(raw) >= 8 {
		bl := int(binary.LittleEndian.Uint32(raw[:4]))
		dl := int(binary.LittleEndian.Uint32(raw[4:8]))
		items = append(items, item{raw[8 : 8+bl], raw[8+bl : 8+bl+dl]})
		raw = raw[8+bl+dl:]
	}
	if len(items) == 0 {
		w.Inconclusive("cold start: empty blob file")
		return
	}
	n := 4 * runtime.GOMAXPROCS(0)
	cs := &ev.Case{Gen: "c20-coldstart", A: int64(n), Text: fmt.Sprintf("goroutines=%d", n)}
	w.Journal(cs)
	start := make(chan struct{})
	var wg sync.WaitGroup
	errs := make([]string, n)
	for g := 0; g < n; g++ {
		g := g
		wg.Add(1)
		go func() {
			defer wg.Done()
			it := items[g%len(items)]
			<-start
			// very first library call of this goroutine and (for one of them) of the process
			s := simdjson.NewSerializer()
			out, err := s.Deserialize(it.blob, nil)
			if err != nil {
				errs[g] = "Deserialize: " + err.Error()
				return
			}
			roots, werr := walk.Into(out)
			if werr != nil || !bytes.Equal(dumpRoots(roots), it.dump) {
				errs[g] = fmt.Sprintf("document differs (%v)", werr)
			}
		}()
	}
	close(start)
	wg.Wait()
	w.Eval(n)
	for g, e := range errs {
		if e != "" {
			w.Violation("C20/cold-start", fmt.Sprintf("goroutine %d of %d, first use of a Serializer in this process: %s", g, n, e), cs)
		}
	}
	w.Count("cold_start_trials", 1)
	w.Count("programs", n)
	w.Nontrivial(gen.Hash64([]byte(fmt.Sprint("coldstart", w.Out.Shard, w.Out.Variant))))
}

func runC20(w *W) {
	switch w.Out.Mode {
	case "emit":
		// blobs for the cold-start trials (this process may use the serializer freely)
		r := w.rng("c20emit")
		f, err := os.Create(filepath.Join(filepath.Dir(w.OutPath), "c20-blobs.bin"))
		if err != nil {
			w.Inconclusive("cannot write blob file")
			return
		}
		defer f.Close()
		for i := 0; i < 8; i++ {
			d := w.c11MakeDoc(r, "cold", gen.Doc(r.Split(), gen.DocCfg{Size: 2000 + 20000*(i%3), MaxDepth: 4, MaxFan: 6, Esc: 20, DupKeys: true}), false, 0)
			if d == nil {
				continue
			}
			s := simdjson.NewSerializer()
			s.CompressMode([]simdjson.CompressMode{simdjson.CompressBest, simdjson.CompressDefault}[i%2])
			blob := s.Serialize(nil, *d.pj)
			var h [8]byte
			binary.LittleEndian.PutUint32(h[:4], uint32(len(blob)))
			binary.LittleEndian.PutUint32(h[4:], uint32(len(d.dump)))
			f.Write(h[:])
			f.Write(blob)
			f.Write(d.dump)
			w.Eval(1)
		}
		w.Nontrivial(1)
		w.Nontrivial(2)
		return
	case "coldstart":
		w.c20ColdStart()
		return
	}
	rounds := 10
	steps := 25
	if w.thorough() {
		rounds = 120
		steps = 60
	}
	if w.Out.Variant == "race" {
		rounds = rounds/2 + 1
	}
	k := 0
	for round := 0; round < rounds; round++ {
		for _, n := range []int{2, 16, 64} {
			for _, procs := range []int{2, 16} {
				k++
				if !w.mine(k) {
					continue
				}
				st := steps
				if n == 64 {
					st = steps / 3
					if w.Out.Variant == "race" && st > 10 {
						st = 10 // 64 goroutines under the race detector: keep the footprint of a round bounded
					}
				}
				w.c20Round(k, n, procs, st)
			}
		}
	}
	runtime.GOMAXPROCS(2)
	w.Max("max_goroutines_inside_library_calls_at_once", c20MaxFlight.Load())
	if c := c20Calls.Load(); c > 0 {
		w.Max("mean_in_flight_x100", c20SumFlight.Load()*100/c)
	}
	w.Count("library_calls_counted", int(c20Calls.Load()))
	w.Count("pool_using_operations_that_overlapped", int(c20PoolOver.Load()))
}

func replayC20(w *W, cs *ev.Case) {
	fmt.Println("C20 rounds are seeded; re-run ./check C20 with the same seed:", cs.Text)
}
