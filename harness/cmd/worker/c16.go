package main

import (
	"bytes"
	"fmt"
	"io"
	"strings"

	simdjson "github.com/minio/simdjson-go"

	"verifharness/ev"
	"verifharness/gen"
	"verifharness/ref"
	"verifharness/walk"
)

func init() { register("C16", runC16, replayC16) }

// view is everything observable about a tape through the read APIs.
type view struct {
	roots []*ref.Value
	text  []byte
	ser   []*ref.Value
	err   string
}

func observe(pj *simdjson.ParsedJson, withSer bool) view {
	var v view
	var err error
	v.roots, err = walk.Into(pj)
	if err != nil {
		v.err = "AdvanceInto: " + err.Error()
		return v
	}
	if r2, err := walk.Adv(pj); err != nil || cmpRoots(v.roots, r2, nil, false) != "" {
		v.err = fmt.Sprintf("Advance route differs: %v", err)
		return v
	}
	perr := walk.Guard(func() error {
		it := pj.Iter()
		var e error
		v.text, e = it.MarshalJSON()
		return e
	})
	if perr != nil {
		v.err = "MarshalJSON: " + perr.Error()
		return v
	}
	if withSer {
		perr = walk.Guard(func() error {
			s := simdjson.NewSerializer()
			out, e := s.Deserialize(s.Serialize(nil, *pj), nil)
			if e != nil {
				return e
			}
			v.ser, e = walk.Into(out)
			return e
		})
		if perr != nil {
			v.err = "serialize round trip: " + perr.Error()
		}
	}
	return v
}

func sameView(a, b view) string {
	if a.err != b.err {
		return fmt.Sprintf("read error %q vs %q", a.err, b.err)
	}
	if d := cmpRoots(a.roots, b.roots, nil, false); d != "" {
		return "traversal: " + d
	}
	if !bytes.Equal(a.text, b.text) {
		return fmt.Sprintf("marshalled bytes: %s vs %s", q(a.text), q(b.text))
	}
	if d := cmpRoots(a.ser, b.ser, nil, false); d != "" {
		return "serialized round trip: " + d
	}
	return ""
}

var c16SharedDst *simdjson.ParsedJson

var overwriteNames = []string{"zeros", "0xFF", "quotes-and-backslashes", "another-valid-document", "random-bytes", "shifted-by-one"}

func overwrite(r *gen.Rand, buf []byte, pattern int) {
	switch pattern {
	case 0:
		for i := range buf {
			buf[i] = 0
		}
	case 1:
		for i := range buf {
			buf[i] = 0xff
		}
	case 2:
		for i := range buf {
			buf[i] = `"\`[i%2]
		}
	case 3:
		other := gen.Doc(r.Split(), gen.DocCfg{Size: len(buf), MaxDepth: 4, MaxFan: 6, Esc: 30})
		for i := range buf {
			buf[i] = other[i%len(other)]
		}
	case 4:
		copy(buf, r.Bytes(len(buf)))
	default:
		copy(buf, buf[1:])
	}
}

func countAliased(pj *simdjson.ParsedJson) (inMsg, inBuf int) {
	for i := 0; i < len(pj.Tape); i++ {
		switch byte(pj.Tape[i] >> 56) {
		case '"':
			if pj.Tape[i]&(1<<55) != 0 {
				inBuf++
			} else {
				inMsg++
			}
			i++
		case 'l', 'u', 'd':
			i++
		}
	}
	return
}

func (w *W) c16Judge(k int, g string, doc []byte, nd bool) {
	hseed := int64(w.Out.Seed)*2000003 + int64(k)
	cs := &ev.Case{Gen: g, Input: doc, A: hseed, B: int64(b2i(nd))}
	w.Journal(cs)
	if w.Skip() {
		return
	}
	r := gen.New(uint64(hseed), "c16")
	var model []*ref.Value
	if nd {
		lines, _ := ref.SplitLines(doc)
		for _, ln := range lines {
			a := ref.Analyze(ln)
			if a.Class != ref.MustAccept {
				return
			}
			model = append(model, a.Value)
		}
	} else {
		a := ref.Analyze(doc)
		if a.Class != ref.MustAccept || a.Info.MaxDepth > 300 {
			return
		}
		model = []*ref.Value{a.Value}
	}
	if len(model) == 0 {
		return
	}
	parse := func(b []byte, cp bool, reuse *simdjson.ParsedJson) (*simdjson.ParsedJson, error) {
		if nd {
			return simdjson.ParseND(b, reuse, simdjson.WithCopyStrings(cp))
		}
		return simdjson.Parse(b, reuse, simdjson.WithCopyStrings(cp))
	}
	w.setKernel(r.Bool() && w.hasAVX512)
	hasStr := false
	// (a) copy mode, default options and explicit; sometimes on an object that was used in no-copy mode before
	for variant := 0; variant < 4; variant++ {
		buf := append([]byte{}, doc...)
		var pj *simdjson.ParsedJson
		var err error
		switch variant {
		case 3:
			// the same option given twice: the last one wins (a wrapper that puts its defaults
			// first and the caller's options after them)
			if nd {
				pj, err = simdjson.ParseND(buf, nil, simdjson.WithCopyStrings(false), simdjson.WithCopyStrings(true))
			} else {
				pj, err = simdjson.Parse(buf, nil, simdjson.WithCopyStrings(false), simdjson.WithCopyStrings(true))
			}
		case 0:
			if nd {
				pj, err = simdjson.ParseND(buf, nil)
			} else {
				pj, err = simdjson.Parse(buf, nil)
			}
		case 1:
			pj, err = parse(buf, true, nil)
		case 2:
			// reuse history: earlier call in no-copy mode, this one with default options
			// The earlier input is at least as large as this one (a recycled object may recycle
			// whatever it holds, but the earlier *input* is the caller's memory), a second no-copy
			// document looks at the same bytes, and the caller leaves them alone.
			prevBuf := []byte(`{"earlier":"no-copy call","x":["a","b"],"pad":"` + strings.Repeat("e", len(doc)+r.Intn(64)) + `"}`)
			prevWant := append([]byte{}, prevBuf...)
			prev, e := simdjson.Parse(prevBuf, nil, simdjson.WithCopyStrings(false))
			if e != nil {
				continue
			}
			witness, e := simdjson.Parse(prevBuf, nil, simdjson.WithCopyStrings(false))
			if e != nil {
				continue
			}
			wv0 := observe(witness, false)
			if nd {
				pj, err = simdjson.ParseND(buf, prev)
			} else {
				pj, err = simdjson.Parse(buf, prev)
			}
			w.Eval(1)
			if !bytes.Equal(prevBuf, prevWant) {
				w.Violation("C16/library-wrote-into-an-earlier-input/reuse-after-no-copy", fmt.Sprintf("Parse(doc, reuse) with default options, reuse coming from a no-copy Parse of another buffer, modified that other buffer (first difference at byte %d of %d) although the caller left it intact; doc=%s", firstDiff(prevBuf, prevWant), len(prevBuf), q(doc)), cs)
				return
			}
			if d := sameView(wv0, observe(witness, false)); d != "" {
				w.Violation("C16/no-copy-document-changed-with-input-intact/reuse-after-no-copy", fmt.Sprintf("a no-copy document over an input the caller left intact changed when another object parsed from the same input was reused: %s; doc=%s", d, q(doc)), cs)
				return
			}
			w.Count("earlier_no_copy_inputs_checked_intact_after_reuse", 1)
		}
		if err != nil {
			w.Count("valid_doc_rejected_by_parse_(C01)", 1)
			return
		}
		s0 := observe(pj, true)
		w.Eval(1)
		if s0.err != "" || cmpRoots(model, s0.roots, nil, false) != "" {
			w.Count("baseline_read_differs_from_model_(C02)", 1)
			return
		}
		if in, buf := countAliased(pj); in+buf > 0 {
			hasStr = true
			w.Count("strings_in_copy_mode_still_pointing_at_input", in)
		}
		pat := (k + variant) % len(overwriteNames)
		overwrite(r, buf, pat)
		s1 := observe(pj, true)
		w.Eval(1)
		if d := sameView(s0, s1); d != "" {
			w.Violation(fmt.Sprintf("C16/copy-mode-depends-on-input/%s/variant%d", map[bool]string{false: "Parse", true: "ParseND"}[nd], variant), fmt.Sprintf("after overwriting the input (%s) the document changed: %s; doc=%s", overwriteNames[pat], d, q(doc)), cs)
			return
		}
		w.Count("overwrite_"+overwriteNames[pat], 1)
	}
	// (b) no-copy mode: same document while the input is intact
	buf := append([]byte{}, doc...)
	npj, err := parse(buf, false, nil)
	if err != nil {
		w.Violation("C16/no-copy-rejects", fmt.Sprintf("no-copy mode rejects a document copy mode accepts: %v; doc=%s", err, q(doc)), cs)
		return
	}
	nv := observe(npj, false)
	w.Eval(1)
	if nv.err != "" || cmpRoots(model, nv.roots, nil, false) != "" {
		w.Violation("C16/no-copy-differs", fmt.Sprintf("no-copy mode exposes a different document: %s %s; doc=%s", nv.err, cmpRoots(model, nv.roots, nil, false), q(doc)), cs)
		return
	}
	inMsg, _ := countAliased(npj)
	w.Count("strings_aliasing_input_in_no_copy_mode", inMsg)
	// (c) Clone independence: of a copy-mode and of a no-copy tape
	for variant := 0; variant < 4; variant++ {
		src := npj
		srcBuf := buf
		switch variant {
		case 1:
			srcBuf = append([]byte{}, doc...)
			src, err = parse(srcBuf, true, nil)
			if err != nil {
				return
			}
		case 2:
			// the document deserialized into an object that a default (copying) Parse filled before:
			// whatever that parser remembers about its last call says nothing about this tape
			if (k+2)%3 != 0 {
				continue
			}
			prev, e := simdjson.Parse([]byte(`{"earlier":"default parse","x":["a","b",1.5]}`), nil)
			if e != nil {
				continue
			}
			srcBuf = append([]byte{}, doc...)
			p2, e := parse(srcBuf, true, nil)
			if e != nil {
				return
			}
			perr := walk.Guard(func() error {
				ser := simdjson.NewSerializer()
				src, err = ser.Deserialize(ser.Serialize(nil, *p2), prev)
				return nil
			})
			if perr != nil || err != nil {
				w.Count("serialize_roundtrip_failed_(C11)", 1)
				continue
			}
		case 3:
			// a document no parser is attached to (a clone of a clone), the way ParseND results,
			// stream values and clones are
			if (k+1)%3 != 0 {
				continue
			}
			srcBuf = append([]byte{}, doc...)
			p2, e := parse(srcBuf, true, nil)
			if e != nil {
				return
			}
			src = p2.Clone(nil).Clone(nil)
		}
		var dst *simdjson.ParsedJson
		switch r.Intn(4) {
		case 3:
			// a destination that holds a clone of another document of exactly the same size and shape
			// (this document with its digits rotated: same input length, same tape length, other bytes),
			// parsed the same way: nothing about equal sizes says the contents are equal
			twin := append([]byte{}, doc...)
			for i, c := range twin {
				if c >= '1' && c <= '9' {
					twin[i] = '1' + (c-'1'+1)%9
				}
			}
			if tp, e := parse(twin, variant == 1, nil); e == nil {
				dst = tp.Clone(nil)
				w.Count("clones_into_a_destination_holding_a_same_sized_twin", 1)
			}
		case 0:
			// the destination every earlier document of this worker was cloned into: its
			// buffers hold whatever came before, longer or shorter than this document
			if c16SharedDst == nil {
				c16SharedDst = &simdjson.ParsedJson{}
			}
			dst = c16SharedDst
			w.Count("clones_into_shared_recycled_destination", 1)
		case 1:
			// a destination that held something else before
			dst, _ = simdjson.Parse([]byte(`{"old":["destination","content",1,2,3],"pad":"`+string(bytes.Repeat([]byte("z"), r.Intn(400)))+`"}`), nil)
			dst = dst.Clone(nil)
		}
		cl := src.Clone(dst)
		if dst == c16SharedDst && dst != nil {
			// keep using the recycled object, but edit a private copy below so that the shared one keeps its history
			c16SharedDst = cl
		}
		base := observe(cl, true)
		w.Eval(1)
		if base.err != "" || cmpRoots(model, base.roots, nil, false) != "" {
			w.Violation("C16/clone-differs", fmt.Sprintf("a fresh clone exposes a different document: %s %s; doc=%s", base.err, cmpRoots(model, base.roots, nil, false), q(doc)), cs)
			return
		}
		// edits to the original must not show in the clone
		om := make([]*ref.Value, len(model))
		for i := range model {
			om[i] = ref.Clone(model[i])
		}
		var trace []string
		for e := 0; e < 1+r.Intn(5); e++ {
			locs := allLocs(om, 500)
			l := locs[r.Intn(len(locs))]
			if len(l.Path) == 0 {
				continue
			}
			op := randSetOp(r)
			if bad, _ := doSet(src, om, l, op, routeInto); bad != "" {
				break
			}
			trace = append(trace, fmt.Sprintf("%v:%s", l, op))
		}
		if variant == 0 {
			// the original is the no-copy document over buf: edits go to the tape and the string
			// buffer, the caller's input stays as it was (other no-copy documents read it)
			w.Eval(1)
			if !bytes.Equal(buf, doc) {
				w.Violation("C16/library-wrote-into-the-input/edits-on-no-copy-document", fmt.Sprintf("edits %v on a no-copy document modified the caller's input buffer (first difference at byte %d); doc=%s", trace, firstDiff(buf, doc), q(doc)), cs)
				return
			}
			w.Count("no_copy_inputs_checked_intact_after_edits", 1)
		}
		after := observe(cl, true)
		w.Eval(1)
		if d := sameView(base, after); d != "" {
			w.Violation(fmt.Sprintf("C16/clone-sees-edits-of-original/src-copy=%v", variant == 1), fmt.Sprintf("edits %v on the original changed the clone: %s; doc=%s", trace, d, q(doc)), cs)
			return
		}
		// the original now equals its own model
		if ov := observe(src, false); ov.err != "" || cmpRoots(om, ov.roots, nil, false) != "" {
			w.Count("original_after_edits_differs_from_model_(C13)", 1)
		}
		// edits to the clone must not show in the original, and the clone must reflect them
		cm := make([]*ref.Value, len(model))
		for i := range model {
			cm[i] = ref.Clone(model[i])
		}
		origBefore := observe(src, true)
		trace = trace[:0]
		for e := 0; e < 1+r.Intn(5); e++ {
			locs := allLocs(cm, 500)
			l := locs[r.Intn(len(locs))]
			if len(l.Path) == 0 {
				continue
			}
			op := randSetOp(r)
			if e == 0 {
				op = setOp{Kind: 5, S: []byte("appended-to-the-clone-" + fmt.Sprint(k))}
				// a string position if there is one
				for _, ll := range locs {
					if kk := modelAt(cm, ll).K; (kk == ref.String || kk == ref.Int) && len(ll.Path) > 0 {
						l = ll
						break
					}
				}
			}
			if bad, _ := doSet(cl, cm, l, op, routeInto); bad != "" {
				break
			}
			trace = append(trace, fmt.Sprintf("%v:%s", l, op))
		}
		origAfter := observe(src, true)
		w.Eval(1)
		if d := sameView(origBefore, origAfter); d != "" {
			w.Violation(fmt.Sprintf("C16/original-sees-edits-of-clone/src-copy=%v", variant == 1), fmt.Sprintf("edits %v on the clone changed the original: %s; doc=%s", trace, d, q(doc)), cs)
			return
		}
		cv := observe(cl, true)
		if cv.err != "" || cmpRoots(cm, cv.roots, nil, false) != "" {
			w.Violation(fmt.Sprintf("C16/clone-after-own-edits/src-copy=%v/dst-reused=%v", variant == 1, dst != nil), fmt.Sprintf("after edits %v the clone does not expose its own edited document: %s %s; doc=%s", trace, cv.err, cmpRoots(cm, cv.roots, nil, false), q(doc)), cs)
			return
		}
		// the clone used as the reuse argument of a later Parse must not touch the original
		if variant == 0 || r.Bool() {
			ob := observe(src, true)
			cl2 := src.Clone(nil)
			other := gen.Doc(r.Split(), gen.DocCfg{Size: 50 + r.Intn(12000), MaxDepth: 4, MaxFan: 6, Esc: 20})
			if _, err := simdjson.Parse(other, cl2); err == nil {
				w.Eval(1)
				if d := sameView(ob, observe(src, true)); d != "" {
					w.Violation(fmt.Sprintf("C16/original-changed-by-parse-into-clone/src-copy=%v", variant == 1), fmt.Sprintf("Parse(other, clone) changed the original the clone was made from: %s; doc=%s", d, q(doc)), cs)
					return
				}
			}
		}
		// the original recycled as the destination of another Clone (its buffers are rewritten in
		// place) must not reach the clone
		if variant >= 2 || r.Chance(1, 3) {
			cvr := observe(cl, true)
			if od, e := simdjson.Parse([]byte(`{"recycled":["original","as","destination"],"n":[1,2,3.5,"`+string(bytes.Repeat([]byte("R"), r.Intn(300)))+`"]}`), nil); e == nil {
				walk.Guard(func() error {
					if variant == 2 {
						// the source was a Deserialize destination: use it as one again
						ser := simdjson.NewSerializer()
						ser.Deserialize(ser.Serialize(nil, *od), src)
						return nil
					}
					od.Clone(src)
					return nil
				})
				w.Eval(1)
				if d := sameView(cvr, observe(cl, true)); d != "" {
					w.Violation(fmt.Sprintf("C16/clone-changed-when-original-was-recycled/variant%d", variant), fmt.Sprintf("other.Clone(original) changed the clone made from the original earlier: %s; doc=%s", d, q(doc)), cs)
					return
				}
				w.Count("originals_recycled_as_clone_destination", 1)
			}
		}
		// a clone survives the loss of the input even when its source referenced it
		overwrite(r, srcBuf, (k+variant)%len(overwriteNames))
		cv2 := observe(cl, true)
		w.Eval(1)
		if d := sameView(cv, cv2); d != "" {
			w.Violation(fmt.Sprintf("C16/clone-depends-on-input/src-copy=%v", variant == 1), fmt.Sprintf("overwriting the input of the source changed the clone: %s; doc=%s", d, q(doc)), cs)
			return
		}
		w.Count("clone_rounds", 1)
	}
	if hasStr || inMsg > 0 {
		w.Nontrivial(gen.Hash64(doc, []byte{byte(k % len(overwriteNames)), byte(b2i(nd))}))
	}
	if w.WantSample() {
		w.Sample(map[string]interface{}{"gen": g, "doc": q(doc), "ndjson": nd})
	}
}

// c16Stream: values delivered by ParseNDStream must not depend on the chunk
// buffer, on later chunks or on recycled values.
func (w *W) c16Stream(k int) {
	hseed := int64(w.Out.Seed)*2000003 + 900000000 + int64(k)
	cs := &ev.Case{Gen: "c16-stream", A: hseed, B: int64(k)}
	w.Journal(cs)
	if w.Skip() {
		return
	}
	r := gen.New(uint64(hseed), "c16s")
	var stream bytes.Buffer
	var model []*ref.Value
	nl := 20 + r.Intn(400)
	for l := 0; l < nl; l++ {
		d := gen.Doc(r.Split(), gen.DocCfg{Size: 20 + r.Intn(300), MaxDepth: 3, MaxFan: 5, Esc: 20, NoLF: true, DupKeys: true})
		a := ref.Analyze(d)
		if a.Class != ref.MustAccept {
			continue
		}
		stream.Write(d)
		stream.WriteByte('\n')
		model = append(model, a.Value)
	}
	// fragment so that several chunks arise: reads of 1..200 bytes
	rd := &fragReader{data: stream.Bytes(), r: r.Split(), max: 40 + r.Intn(4000)}
	res := make(chan simdjson.Stream, r.Intn(3))
	reuse := make(chan *simdjson.ParsedJson, 4)
	simdjson.ParseNDStream(rd, res, reuse)
	type held struct {
		pj   *simdjson.ParsedJson
		v    view
		from int
		n    int
	}
	var keep []held
	got := 0
	chunks := 0
	for s := range res {
		if s.Error != nil {
			if s.Error != io.EOF {
				w.Count("stream_error_(C09)", 1)
			}
			continue
		}
		chunks++
		v := observe(s.Value, false)
		n := len(v.roots)
		if v.err != "" || got+n > len(model) || cmpRoots(model[got:got+n], v.roots, nil, false) != "" {
			w.Count("stream_value_differs_from_model_(C09)", 1)
			got += n
			continue
		}
		// scribble over the chunk buffer the value came from
		overwrite(r, s.Value.Message, (k+chunks)%len(overwriteNames))
		switch r.Intn(3) {
		case 0:
			keep = append(keep, held{s.Value, v, got, n})
		case 1:
			// recycle at once (the library may hand it to a later chunk)
			select {
			case reuse <- s.Value:
			default:
			}
		default:
			v2 := observe(s.Value, false)
			w.Eval(1)
			if d := sameView(v, v2); d != "" {
				w.Violation("C16/stream-value-depends-on-chunk-buffer", fmt.Sprintf("after overwriting Value.Message the delivered documents changed: %s", d), cs)
			}
		}
		got += n
	}
	for _, h := range keep {
		v2 := observe(h.pj, false)
		w.Eval(1)
		if d := sameView(h.v, v2); d != "" {
			w.Violation("C16/held-stream-value-changed", fmt.Sprintf("a value held while later chunks were read and other values recycled changed: %s (documents %d..%d of the stream)", d, h.from, h.from+h.n), cs)
			break
		}
	}
	w.Count("stream_chunks", chunks)
	w.Count("streams", 1)
	if chunks >= 2 {
		w.Nontrivial(uint64(hseed))
	}
}

type fragReader struct {
	data []byte
	r    *gen.Rand
	max  int
}

func (f *fragReader) Read(p []byte) (int, error) {
	if len(f.data) == 0 {
		return 0, io.EOF
	}
	n := 1 + f.r.Intn(f.max)
	if n > len(p) {
		n = len(p)
	}
	if n > len(f.data) {
		n = len(f.data)
	}
	copy(p, f.data[:n])
	f.data = f.data[n:]
	return n, nil
}

func runC16(w *W) {
	k := 0
	scale := 1
	ns := 160
	if w.thorough() {
		scale = 30
		ns = 6000
	}
	w.editDocs(2500*scale, func(g string, doc []byte, kk int) {
		k++
		if w.mine(k) {
			w.c16Judge(k, g, doc, false)
		}
	})
	w.eachNDInput(scale, func(g string, in []byte) {
		k++
		if w.mine(k) && len(in) < 200000 {
			w.c16Judge(k, g, in, true)
		}
	})
	for _, d := range gen.Corpus(300 << 10) {
		k++
		if w.mine(k) {
			w.c16Judge(k, "corpus:"+d.Name, d.Data, false)
		}
	}
	// the last value is a long escape-free string (the end-of-message padding paths of the string parser)
	for _, n := range []int{100, 380, 384, 385, 386, 400, 447, 448, 449, 460, 511, 512, 513, 600, 2000, 9000} {
		for gap := 0; gap <= 66; gap += 11 {
			k++
			if !w.mine(k) {
				continue
			}
			s := strings.Repeat("p", n)
			w.c16Judge(k, "long-tail-string", []byte(`{"a":1,"tail":"`+s+`"`+strings.Repeat(" ", gap)+`}`), false)
			w.c16Judge(k, "long-tail-string", []byte(`["x","`+s+`"`+strings.Repeat(" ", gap)+`]`), false)
			w.c16Judge(k, "long-tail-string-nd", []byte(`{"a":1}`+"\n"+`["`+s+`"]`+"\n"), true)
		}
	}
	for i := 0; i < ns; i++ {
		if w.mine(i) {
			w.c16Stream(i)
		}
	}
}

func replayC16(w *W, cs *ev.Case) {
	if cs.Gen == "c16-stream" {
		w.Out.Seed = uint64((cs.A - cs.B - 900000000) / 2000003)
		w.c16Stream(int(cs.B))
		return
	}
	k := cs.A % 2000003
	w.Out.Seed = uint64((cs.A - k) / 2000003)
	w.c16Judge(int(k), cs.Gen, cs.Input, cs.B == 1)
}

func firstDiff(a, b []byte) int {
	n := len(a)
	if len(b) < n {
		n = len(b)
	}
	for i := 0; i < n; i++ {
		if a[i] != b[i] {
			return i
		}
	}
	return n
}
