package main

import (
	"bytes"
	"fmt"
	"math"
	"math/big"
	"strconv"
	"strings"

	simdjson "github.com/minio/simdjson-go"

	"verifharness/ev"
	"verifharness/gen"
	"verifharness/ref"
	"verifharness/walk"
)

func init() { register("C03", runC03, replayC03) }

type c03State struct {
	batch [][]byte
	n     int
	seen  int
}

// c03Expect computes the reference typing/value and cross-checks strconv.
func (w *W) c03Expect(lit []byte) (v ref.Value, ok bool) {
	if !ref.IsNumber(lit) {
		w.Count("generator_produced_non_number_skipped", 1)
		return v, false
	}
	v, finite := ref.NumberValue(lit)
	f, err := strconv.ParseFloat(string(lit), 64)
	sfin := err == nil
	if sfin != finite {
		w.OracleDisagreement("C03/finite/"+q(lit), fmt.Sprintf("reference finite=%v strconv err=%v", finite, err), &ev.Case{Gen: "c03", Input: lit})
		return v, false
	}
	if !finite {
		w.Count("non_finite_literals_skipped_(C01)", 1)
		return v, false
	}
	var rf float64
	switch v.K {
	case ref.Float:
		rf = v.F
	case ref.Int:
		rf = float64(v.I)
		if i, err := strconv.ParseInt(string(lit), 10, 64); err != nil || i != v.I {
			w.OracleDisagreement("C03/int/"+q(lit), fmt.Sprintf("reference int %d, strconv %d %v", v.I, i, err), &ev.Case{Gen: "c03", Input: lit})
			return v, false
		}
		return v, true
	case ref.Uint:
		if u, err := strconv.ParseUint(string(lit), 10, 64); err != nil || u != v.U {
			w.OracleDisagreement("C03/uint/"+q(lit), fmt.Sprintf("reference uint %d, strconv %d %v", v.U, u, err), &ev.Case{Gen: "c03", Input: lit})
			return v, false
		}
		return v, true
	}
	if math.Float64bits(rf) != math.Float64bits(f) {
		w.OracleDisagreement("C03/float/"+q(lit), fmt.Sprintf("reference %v (%#x), strconv %v (%#x)", rf, math.Float64bits(rf), f, math.Float64bits(f)), &ev.Case{Gen: "c03", Input: lit})
		return v, false
	}
	return v, true
}

// c03CheckDoc parses doc holding the literals lits (as array elements or
// object values) and compares every exposed number.
func (w *W) c03CheckDoc(doc []byte, lits [][]byte, exp []ref.Value, cfg Config, fresh bool, where string, layout int) {
	cs := &ev.Case{Gen: "c03-" + where, Input: doc}
	w.Journal(cs)
	if w.Skip() {
		return
	}
	pj, err, pan := w.parseGuarded(doc, cfg, false, fresh)
	if pan != nil {
		w.Violation("C03/parse-panic", fmt.Sprintf("Parse panicked: %v on %s", pan, q(doc)), cs)
		return
	}
	if err != nil {
		if len(lits) == 1 {
			w.Count("valid_literal_rejected_(C01)", 1)
			w.SetAdd("rejected_literals", q(lits[0]))
			return
		}
		// split to find the rejected literal(s)
		h := len(lits) / 2
		w.c03CheckDoc(c03Doc(lits[:h], where, layout), lits[:h], exp[:h], cfg, fresh, where, layout)
		w.c03CheckDoc(c03Doc(lits[h:], where, layout), lits[h:], exp[h:], cfg, fresh, where, layout)
		return
	}
	perr := walk.Guard(func() error {
		it := pj.Iter()
		k := 0
		for {
			tag := it.AdvanceInto()
			if tag == simdjson.TagEnd {
				break
			}
			switch tag {
			case simdjson.TagInteger, simdjson.TagUint, simdjson.TagFloat:
			default:
				continue
			}
			if k >= len(lits) {
				return fmt.Errorf("more numbers on the tape than literals")
			}
			e := exp[k]
			lit := lits[k]
			k++
			w.Eval(1)
			typ := it.Type()
			bad := func(what, detail string) {
				// the witness is the literal alone with the white space that followed it here
				wl := 0
				if layout != 0 {
					wl = ((k-1)*7 + layout) % len(c03Gaps)
				}
				wdoc := c03Doc([][]byte{lit}, where, wl)
				if wl != 0 {
					detail += fmt.Sprintf(" [followed by %d bytes of white space]", c03Gaps[wl%len(c03Gaps)])
				}
				w.Violation("C03/"+what+"/"+q(lit), fmt.Sprintf("literal %s (%s, %s): %s", q(lit), where, cfg, detail), &ev.Case{Gen: "c03-" + where, Input: wdoc})
			}
			c03JudgeNumber(&it, typ, e, bad)

		}
		if k != len(lits) {
			return fmt.Errorf("%d numbers on the tape, want %d", k, len(lits))
		}
		if where == "array" {
			// the same numbers through Array.Iter + AdvanceIter into one long-lived destination iterator
			it := pj.Iter()
			it.AdvanceInto()
			if it.AdvanceInto() != simdjson.TagArrayStart {
				return fmt.Errorf("root is not an array")
			}
			a, err := it.Array(nil)
			if err != nil {
				return err
			}
			ai := a.Iter()
			for k := 0; ; k++ {
				t, err := ai.AdvanceIter(&c03ArrElem)
				if err != nil {
					return err
				}
				if t == simdjson.TypeNone {
					if k != len(lits) {
						return fmt.Errorf("%d elements through AdvanceIter, want %d", k, len(lits))
					}
					break
				}
				if k >= len(lits) {
					return fmt.Errorf("more elements than literals")
				}
				lit := lits[k]
				w.Eval(1)
				c03JudgeNumber(&c03ArrElem, t, exp[k], func(what, detail string) {
					w.Violation("C03/"+what+"/AdvanceIter/"+q(lit), fmt.Sprintf("literal %s (array element read through AdvanceIter into a recycled iterator, %s): %s", q(lit), cfg, detail), &ev.Case{Gen: "c03-" + where, Input: c03Doc([][]byte{lit}, where, 0)})
				})
			}
		}
		if where == "object" {
			// the same numbers through Object.NextElementBytes into one long-lived destination iterator
			// (what it held before: the previous member, the previous document)
			it := pj.Iter()
			it.AdvanceInto()
			if it.AdvanceInto() != simdjson.TagObjectStart {
				return fmt.Errorf("root is not an object")
			}
			o, err := it.Object(nil)
			if err != nil {
				return err
			}
			for k := 0; ; k++ {
				_, t, err := o.NextElementBytes(&c03Elem)
				if err != nil {
					return err
				}
				if t == simdjson.TypeNone {
					if k != len(lits) {
						return fmt.Errorf("%d members through NextElementBytes, want %d", k, len(lits))
					}
					break
				}
				if k >= len(lits) {
					return fmt.Errorf("more members than literals")
				}
				lit := lits[k]
				w.Eval(1)
				c03JudgeNumber(&c03Elem, t, exp[k], func(what, detail string) {
					w.Violation("C03/"+what+"/NextElementBytes/"+q(lit), fmt.Sprintf("literal %s (object member read through NextElementBytes into a recycled iterator, %s): %s", q(lit), cfg, detail), &ev.Case{Gen: "c03-" + where, Input: c03Doc([][]byte{lit}, where, 0)})
				})
			}
		}
		return nil
	})
	if perr != nil {
		w.Violation("C03/traverse/"+where, fmt.Sprintf("walking the numbers failed: %v; doc=%s", perr, q(doc)), cs)
	}
}

// c03JudgeNumber compares what an iterator resting on a number exposes with the reference.
func c03JudgeNumber(it *simdjson.Iter, typ simdjson.Type, e ref.Value, bad func(what, detail string)) {
	switch e.K {
	case ref.Int:
		if typ != simdjson.TypeInt {
			bad("type", fmt.Sprintf("exposed as %v, want int", typ))
			return
		}
		if v, err := it.Int(); err != nil || v != e.I {
			bad("value", fmt.Sprintf("Int()=%d,%v want %d", v, err, e.I))
		}
	case ref.Uint:
		if typ != simdjson.TypeUint {
			bad("type", fmt.Sprintf("exposed as %v, want uint", typ))
			return
		}
		if v, err := it.Uint(); err != nil || v != e.U {
			bad("value", fmt.Sprintf("Uint()=%d,%v want %d", v, err, e.U))
		}
	case ref.Float:
		if typ != simdjson.TypeFloat {
			bad("type", fmt.Sprintf("exposed as %v, want float", typ))
			return
		}
		v, fl, err := it.FloatFlags()
		if err != nil || math.Float64bits(v) != math.Float64bits(e.F) {
			bad("value", fmt.Sprintf("FloatFlags()=%v (%#x),%v want %v (%#x)", v, math.Float64bits(v), err, e.F, math.Float64bits(e.F)))
			return
		}
		if fl.Contains(simdjson.FloatOverflowedInteger) != e.Flag {
			bad("flag", fmt.Sprintf("overflowed-integer flag %v, want %v", fl.Contains(simdjson.FloatOverflowedInteger), e.Flag))
		}
		if uint64(fl)&^uint64(simdjson.FloatOverflowedInteger) != 0 {
			bad("flag", fmt.Sprintf("unknown flag bits %#x", uint64(fl)))
		}
	}
}

var c03Elem, c03ArrElem simdjson.Iter

// c03Gaps: how many white-space bytes follow a literal before the next structural character
// (layout > 0): none, a few, around the longest integer (20 bytes) and a SIMD block and more.
var c03Gaps = []int{0, 1, 2, 7, 18, 19, 20, 21, 22, 40, 64, 130}

func c03Doc(lits [][]byte, where string, layout int) []byte {
	var b bytes.Buffer
	gap := func(i int) {
		if layout == 0 {
			return
		}
		n := c03Gaps[(i*7+layout)%len(c03Gaps)]
		for j := 0; j < n; j++ {
			b.WriteByte(" \n\t\r"[(j+i+layout)%4])
		}
	}
	lead := func(i int) {
		if layout%3 == 2 {
			b.WriteString("  \n"[:(i+layout)%4])
		}
	}
	if where == "array" {
		b.WriteByte('[')
		for i, l := range lits {
			if i > 0 {
				b.WriteByte(',')
			}
			lead(i)
			b.Write(l)
			gap(i)
		}
		b.WriteByte(']')
	} else {
		b.WriteByte('{')
		for i, l := range lits {
			if i > 0 {
				b.WriteByte(',')
			}
			b.WriteString(`"k":`)
			lead(i)
			b.Write(l)
			gap(i)
		}
		b.WriteByte('}')
	}
	return b.Bytes()
}

func (w *W) c03Flush(st *c03State) {
	if len(st.batch) == 0 {
		return
	}
	var lits [][]byte
	var exp []ref.Value
	for _, l := range st.batch {
		if v, ok := w.c03Expect(l); ok {
			lits = append(lits, l)
			exp = append(exp, v)
			w.Nontrivial(gen.Hash64(l))
			w.Count("kind_"+v.K.String(), 1)
			if v.Flag {
				w.Count("kind_float_with_overflow_flag", 1)
			}
		}
	}
	st.batch = st.batch[:0]
	if len(lits) == 0 {
		return
	}
	st.n++
	for ci, cfg := range w.configs() {
		for _, where := range []string{"array", "object"} {
			// every other document with white space of many lengths behind (and before) the literals
			layout := 0
			if (st.n+ci+len(where))%2 == 0 {
				layout = 1 + st.n%11
			}
			w.c03CheckDoc(c03Doc(lits, where, layout), lits, exp, cfg, (st.n+ci)%64 == 0, where, layout)
		}
	}
	if w.WantSample() {
		w.Sample(map[string]interface{}{"literals": []string{string(lits[0]), string(lits[len(lits)/2]), string(lits[len(lits)-1])}, "batch": len(lits)})
	}
}

func (w *W) c03Add(st *c03State, lit string) {
	st.seen++
	if !w.mine(st.seen / 500) {
		return
	}
	st.batch = append(st.batch, []byte(lit))
	if len(st.batch) >= 500 {
		w.c03Flush(st)
	}
}

func runC03(w *W) {
	st := &c03State{}
	th := w.thorough()
	add := func(s string) { w.c03Add(st, s) }
	// 1. all integers of 1..k digits, with and without sign
	maxDigits := 6
	if th {
		maxDigits = 7
	}
	lim := 1
	for d := 0; d < maxDigits; d++ {
		lim *= 10
	}
	for i := 0; i < lim; i++ {
		s := strconv.Itoa(i)
		add(s)
		add("-" + s)
	}
	w.c03Flush(st)
	if w.Out.Shard == 0 {
		w.Exhaustive(fmt.Sprintf("integers of 1..%d digits, both signs", maxDigits), int64(lim)*2)
	}
	// 2. boundaries
	p63 := new(big.Int).Lsh(big.NewInt(1), 63)
	p64 := new(big.Int).Lsh(big.NewInt(1), 64)
	t19 := new(big.Int).Exp(big.NewInt(10), big.NewInt(19), nil)
	t20 := new(big.Int).Exp(big.NewInt(10), big.NewInt(20), nil)
	p53 := new(big.Int).Lsh(big.NewInt(1), 53)
	for _, base := range []*big.Int{p63, p64, t19, t20, p53} {
		for d := -3; d <= 3; d++ {
			v := new(big.Int).Add(base, big.NewInt(int64(d)))
			for _, sign := range []string{"", "-"} {
				s := sign + v.String()
				add(s)
				for _, suf := range []string{".0", "e0", "E+0", "e-0", ".5", "e1", "e-1", "0", "00"} {
					add(s + suf)
				}
			}
		}
	}
	for d := 17; d <= 23; d++ {
		for _, lead := range []string{"1", "9", "18", "92"} {
			if len(lead) > d {
				continue
			}
			add(lead + strings.Repeat("0", d-len(lead)))
			add(lead + strings.Repeat("9", d-len(lead)))
			add("-" + lead + strings.Repeat("0", d-len(lead)))
			add("-" + lead + strings.Repeat("9", d-len(lead)))
		}
	}
	// 3. random doubles, 17 digits and shortest, several spellings
	r := w.rng("c03floats")
	nRand := 3000000
	if th {
		nRand = 40000000
	}
	for i := 0; i < nRand; i++ {
		f := math.Float64frombits(r.Uint64())
		if math.IsInf(f, 0) || math.IsNaN(f) {
			continue
		}
		switch i % 4 {
		case 0:
			add(strconv.FormatFloat(f, 'e', 16, 64))
		case 1:
			add(strconv.FormatFloat(f, 'g', -1, 64))
		case 2:
			add(strings.ToUpper(strconv.FormatFloat(f, 'e', -1, 64)))
		case 3:
			// moderate magnitudes in plain notation
			g := (r.Float64() - 0.5) * math.Pow(10, float64(r.Intn(30)-10))
			add(strconv.FormatFloat(g, 'f', -1, 64))
		}
	}
	// 4. halfway cases between adjacent doubles
	nHalf := 100000
	if th {
		nHalf = 1200000
	}
	for i := 0; i < nHalf; i++ {
		bits := r.Uint64() &^ (1 << 63)
		switch i % 5 {
		case 0: // subnormal
			bits &= (1 << 52) - 1
		case 1: // around 1
			bits = 0x3ff0000000000000 | bits&((1<<52)-1)
		case 2: // small exponents
			bits = (uint64(1000+r.Intn(100)) << 52) | bits&((1<<52)-1)
		}
		a := math.Float64frombits(bits)
		b := math.Nextafter(a, math.Inf(1))
		if math.IsInf(b, 0) || math.IsNaN(a) || math.IsInf(a, 0) {
			continue
		}
		mid := new(big.Rat).Add(new(big.Rat).SetFloat64(a), new(big.Rat).SetFloat64(b))
		mid.Quo(mid, big.NewRat(2, 1))
		s := mid.FloatString(1130)
		s = strings.TrimRight(s, "0")
		s = strings.TrimSuffix(s, ".")
		if len(s) > 1100 || s == "" {
			continue
		}
		add(s) // exact tie
		if strings.Contains(s, ".") {
			add(s + "1")                          // just above
			add(s[:len(s)-1] + decDigit(s) + "9") // just below
		} else {
			add(s + ".0000000000000000000000001")
		}
		if i%7 == 0 {
			add("-" + s)
		}
	}
	// 5. fixed hard cases
	for _, s := range []string{
		"4.9e-324", "4.9406564584124654e-324", "2.4703282292062327e-324", "2.4703282292062328e-324", "2.47032822920623272e-324", "2.4703282292062327208051355972538937e-324",
		"2.2250738585072011e-308", "2.2250738585072014e-308", "2.2250738585072009e-308", "2.225073858507201136057409796709131975934819546351645648023426109724822222021076945516529523908135087914149158913039621106870086438694594645527657207407820621743379988141063267329253552286881372149012981122451451889849057867640492778262424e-308",
		"1.7976931348623157e308", "1.7976931348623158e308", "1.797693134862315807e308", "179769313486231570000000000000000000000000000000000000000000000000000000000000000000000000000000000000000000000000000000000000000000000000000000000000000000000000000000000000000000000000000000000000000000000000000000000000000000000000000000000000000000000000000000000000000000000000000000000000000000000000",
		"0.1", "0.2", "0.3", "1e23", "8.41e21", "9007199254740993", "9007199254740992.5", "9007199254740993.0", "5e-324", "1e-323", "0e0", "-0e0", "-0.0", "0.0", "-0", "0", "0e-999999999", "0.0e+999999999", "-0.0e-5",
		"1e0", "1E0", "1e+0", "1e-0", "1e00", "1e+00", "1E-00", "1e000000000000000000001", "10e-1", "100e-2", "0.1e1", "0.01e2", "1.0", "1.00", "1.000000000000000000000000000000000000000000000000000000000000000000000001",
		"0.000001", "0.0000001", "123456789012345678901234567890.123456789", "1e21", "1e20", "999999999999999999999", "1e22", "1e-7", "1.5e300", "1.5e-300", "6.02214076e23", "1.6e-19",
		"9223372036854775807.0", "9223372036854775808.0", "18446744073709551615.0", "18446744073709551616.0", "9223372036854775807e0", "-9223372036854775808e0", "-9223372036854775809", "-18446744073709551616", "-18446744073709551615", "100000000000000000000", "1" + strings.Repeat("0", 300), "-1" + strings.Repeat("0", 300),
	} {
		add(s)
	}
	for k := -330; k <= 309; k++ {
		add("1e" + strconv.Itoa(k))
		add("9.999999999999999e" + strconv.Itoa(k))
		add("1.0000000000000002e" + strconv.Itoa(k))
	}
	w.c03Flush(st)
}

func decDigit(s string) string {
	c := s[len(s)-1]
	if c > '0' && c <= '9' {
		return string(c - 1)
	}
	return "0"
}

func replayC03(w *W, cs *ev.Case) {
	// the case input is a one-literal document; recover the literal
	in := cs.Input
	where := "array"
	var lit []byte
	if bytes.HasPrefix(in, []byte("[")) {
		lit = in[1 : len(in)-1]
	} else {
		where = "object"
		lit = in[len(`{"k":`) : len(in)-1]
	}
	lit = bytes.Trim(lit, " \n\t\r")
	v, ok := w.c03Expect(lit)
	fmt.Printf("literal %s: reference %v %+v usable=%v\n", q(lit), v.K, v, ok)
	if !ok {
		return
	}
	for _, cfg := range w.configs() {
		w.c03CheckDoc(in, [][]byte{lit}, []ref.Value{v}, cfg, true, where, 0)
	}
}
