package main

import (
	"bytes"
	"fmt"

	simdjson "github.com/minio/simdjson-go"

	"verifharness/ev"
	"verifharness/gen"
	"verifharness/ref"
	"verifharness/tapecheck"
	"verifharness/walk"
)

func init() { register("C17", runC17, replayC17) }

var compModes = []simdjson.CompressMode{simdjson.CompressNone, simdjson.CompressFast, simdjson.CompressDefault, simdjson.CompressBest}

// deleteSome deletes a seeded subset of members in up to maxC containers of
// pj (via DeleteElems / SetNull), returning how many members were removed.
func deleteSome(r *gen.Rand, pj *simdjson.ParsedJson, roots []*ref.Value, maxC int) (removed int, err error) {
	err = walk.Guard(func() error {
		locs := allLocs(roots, 4000)
		done := 0
		for tries := 0; tries < 6*maxC && done < maxC && len(locs) > 0; tries++ {
			l := locs[r.Intn(len(locs))]
			v := modelAt(roots, l)
			if v.K != ref.Array && v.K != ref.Object {
				continue
			}
			it, e := locateInto(pj, l)
			if e != nil {
				// position may lie inside an already deleted member
				continue
			}
			n := len(v.A) + len(v.Vals)
			if n == 0 {
				continue
			}
			mask := r.Uint64()
			if v.K == ref.Array {
				a, e := it.Array(nil)
				if e != nil {
					return e
				}
				k := 0
				a.DeleteElems(func(i simdjson.Iter) bool {
					d := mask>>(uint(k)%64)&1 == 1
					k++
					if d {
						removed++
					}
					return d
				})
			} else {
				o, e := it.Object(nil)
				if e != nil {
					return e
				}
				k := 0
				if e := o.DeleteElems(func(key []byte, i simdjson.Iter) bool {
					d := mask>>(uint(k)%64)&1 == 1
					k++
					if d {
						removed++
					}
					return d
				}, nil); e != nil {
					return e
				}
			}
			done++
			// do not descend into this container again (members may be gone)
			var keep []Loc
			for _, x := range locs {
				if x.Root == l.Root && len(x.Path) >= len(l.Path) && samePrefix(x.Path, l.Path) {
					continue
				}
				keep = append(keep, x)
			}
			locs = keep
		}
		return nil
	})
	return
}

func samePrefix(p, prefix []int) bool {
	for i := range prefix {
		if p[i] != prefix[i] {
			return false
		}
	}
	return true
}

func (w *W) c17Check(g string, what string, pj *simdjson.ParsedJson, opt tapecheck.Options, cs *ev.Case, cfg Config) bool {
	st, err := tapecheck.Check(pj, opt)
	w.Eval(1)
	if err != nil {
		w.Violation("C17/"+what+"/"+errClass(err)+"/"+genClass(g), fmt.Sprintf("%s tape (%s) violates the documented format: %v; doc=%s", what, cfg, err, q(cs.Input)), cs)
		return false
	}
	w.Count("tapes_checked_"+what, 1)
	w.Count("roots", st.Roots)
	w.Count("containers", st.Containers)
	w.Count("strings_in_buffer", st.StrInBuf)
	w.Count("strings_in_message", st.StrInMsg)
	w.Count("numbers", st.Numbers)
	w.Count("nops", st.Nops)
	w.Count("nop_runs", st.NopRuns)
	w.Count("objects_with_odd_live_entries_(not_judged)", st.KeyValOdd)
	w.Max("max_depth", int64(st.MaxDepth))
	return st.Containers >= 2
}

// errClass keeps the first words of a checker message (without numbers) as a key part.
func errClass(err error) string {
	s := err.Error()
	var b bytes.Buffer
	for i := 0; i < len(s) && b.Len() < 60; i++ {
		c := s[i]
		switch {
		case c >= '0' && c <= '9':
			if b.Len() == 0 || b.Bytes()[b.Len()-1] != '#' {
				b.WriteByte('#')
			}
		case c == ' ':
			b.WriteByte('_')
		default:
			b.WriteByte(c)
		}
	}
	return b.String()
}

var (
	c17Ser      *simdjson.Serializer
	c17PrevBlob []byte
)

// c17NopRunsExact: every deleted entry at p with skip count k has p+k on the first entry behind its
// run (or on the end of the tape). Number payload words are stepped over, not interpreted.
func c17NopRunsExact(tape []uint64) error {
	for i := 0; i < len(tape); i++ {
		switch byte(tape[i] >> 56) {
		case 'l', 'u', 'd', '"':
			i++ // payload / length word
		case 'N':
			j := i
			for j < len(tape) && byte(tape[j]>>56) == 'N' {
				j++
			}
			for p := i; p < j; p++ {
				if k := tape[p] & (1<<56 - 1); uint64(p)+k != uint64(j) {
					return fmt.Errorf("entry %d: NOP skip %d lands on %d, its run ends at %d (tape %d)", p, k, uint64(p)+k, j, len(tape))
				}
			}
			i = j - 1
		}
	}
	return nil
}

// c17Dst: recycled Deserialize destination (single-threaded driver).
var (
	c17Dst *simdjson.ParsedJson
	c17Run int
)

func (w *W) c17Judge(st *c01State, g string, doc []byte, nd bool) {
	cs := &ev.Case{Gen: g, Input: doc, A: int64(b2i(nd))}
	w.Journal(cs)
	if w.Skip() {
		return
	}
	st.n++
	nontrivial := false
	for ci, cfg := range w.configsAlt(st.n) {
		fresh := (st.n+ci)%64 == 0
		pj, err, pan := w.parseGuarded(doc, cfg, nd, fresh)
		if pan != nil || err != nil {
			w.Count("not_accepted_skipped", 1)
			continue
		}
		what := "parse"
		if nd {
			what = "parsend"
		}
		if w.c17Check(g, what, pj, tapecheck.Options{}, cs, cfg) {
			nontrivial = true
		}
		// deserialized tapes (every 4th document, rotating compression mode)
		if (st.n+ci)%4 != 0 || len(doc) > 1<<20 {
			continue
		}
		mode := compModes[(st.n/4+ci)%4]
		// one Serializer for the whole run (it may be reused), and now and then the call before this
		// one failed in the middle of rebuilding a tape (the previous blob with one tag byte replaced
		// by a letter that is no tag, two thirds into the tag stream: scopes are open at that point)
		if c17Ser == nil {
			c17Ser = simdjson.NewSerializer()
		}
		ser := c17Ser
		ser.CompressMode(mode)
		if c17PrevBlob != nil && st.n%3 == 0 {
			walk.Guard(func() error {
				if c, err := parseContainer(c17PrevBlob); err == nil && len(c.plain[2]) > 3 {
					c.plain[2][len(c.plain[2])*2/3] = 'Z'
					if _, err := ser.Deserialize(c.build(), nil); err != nil {
						w.Count("deserialized_after_a_call_that_failed_mid_tape", 1)
					}
				}
				return nil
			})
		}
		var out *simdjson.ParsedJson
		var derr error
		pan = walk.Guard(func() error {
			blob := ser.Serialize(nil, *pj)
			if len(blob) < 1<<20 {
				c17PrevBlob = append(c17PrevBlob[:0], blob...)
			}
			// every other result lands in the destination the previous document (of another size,
			// other string lengths) was deserialized into
			out, derr = ser.Deserialize(blob, c17Dst)
			return nil
		})
		// (kept for runs of seven documents: lengths go up and down below the capacity)
		if c17Run++; c17Run%8 != 0 && derr == nil && pan == nil {
			c17Dst = out
		} else {
			c17Dst = nil
		}
		if pan != nil || derr != nil {
			w.Count("serialize_roundtrip_failed_(C11)", 1)
		} else {
			w.c17Check(g, "deserialized", out, tapecheck.Options{AllowNop: true, NopExact: true}, cs, cfg)
		}
		// the last root entry itself replaced by null (supported: the tape then ends in a run of deleted
		// entries, with no closing root behind it): after the round trip every skip count of that run
		// still lands exactly on the end of the run, which here is the end of the tape
		if (st.n+ci)%8 == 0 {
			rn := pj.Clone(nil)
			nulled := false
			walk.Guard(func() error {
				it := rn.Iter()
				last := -1
				for it.Advance() == simdjson.TypeRoot {
					last++
				}
				it = rn.Iter()
				for i := 0; i <= last; i++ {
					it.Advance()
				}
				nulled = last >= 0 && it.SetNull() == nil
				return nil
			})
			if nulled {
				var rout *simdjson.ParsedJson
				var rerr error
				rp := walk.Guard(func() error {
					rout, rerr = ser.Deserialize(ser.Serialize(nil, *rn), nil)
					return nil
				})
				if rp != nil || rerr != nil {
					w.Count("serialize_roundtrip_failed_(C11)", 1)
				} else {
					w.Eval(1)
					w.Count("tapes_checked_deserialized-root-nulled", 1)
					if err := c17NopRunsExact(rout.Tape); err != nil {
						w.Violation("C17/deserialized-root-nulled/"+errClass(err)+"/"+genClass(g), fmt.Sprintf("tape rebuilt by Deserialize from a tape whose last root entry was replaced by null: %v (%s, doc=%s)", err, cfg, q(doc)), cs)
					}
				}
			}
		}
		// with deleted members (NOP runs)
		a := ref.Analyze(doc)
		if nd || a.Class != ref.MustAccept || a.Info.MaxDepth > 2000 {
			continue
		}
		cl := pj.Clone(nil)
		r := w.rng("c17del", st.n, ci)
		removed, e := deleteSome(r, cl, []*ref.Value{a.Value}, 3)
		if e != nil || removed == 0 {
			w.Count("no_deletion_applied", 1)
			continue
		}
		// the edited tape itself must still be well-formed (NOPs allowed, runs not required to be merged)
		w.c17Check(g, "edited", cl, tapecheck.Options{AllowNop: true}, cs, cfg)
		pan = walk.Guard(func() error {
			blob := ser.Serialize(nil, *cl)
			out, derr = ser.Deserialize(blob, c17Dst)
			return nil
		})
		if pan != nil || derr != nil {
			w.Count("serialize_roundtrip_failed_(C11)", 1)
			continue
		}
		w.Count("members_deleted", removed)
		w.c17Check(g, "deserialized-edited", out, tapecheck.Options{AllowNop: true, NopExact: true}, cs, cfg)
	}
	if nontrivial {
		w.Nontrivial(gen.Hash64(doc, []byte{byte(b2i(nd))}))
	}
	if w.WantSample() {
		w.Sample(map[string]interface{}{"gen": g, "doc": q(doc), "ndjson": nd})
	}
}

func runC17(w *W) {
	w.tapecheckSelfTest()
	st := &c01State{}
	scale := 10
	if w.thorough() {
		scale = 120
	}
	w.eachValidDoc(scale, func(g string, doc []byte) { w.c17Judge(st, g, doc, false) })
	w.eachNDInput(scale, func(g string, in []byte) { w.c17Judge(st, g, in, true) })
	// "After a successful parse the tape is well-formed" also binds when the
	// parser accepts something it should not: feed hostile inputs and check the
	// tape of whatever is accepted (acceptance itself is C01's business).
	any := func(g string, in []byte) {
		w.c17Judge(st, g, in, false)
		w.c17Judge(st, g, in, true)
	}
	w.genTokens(4, any)
	w.genBoundaryPairs(any)
	docs := w.seedDocs(300<<10, 60, 20)
	per := 40
	if w.thorough() {
		per = 300
	}
	w.genMutants(docs, func(size int) int {
		if size > 64<<10 {
			return per / 8
		}
		return per
	}, any)
	// truncations of valid documents that still end in a closer
	r := w.rng("c17trunc")
	nt := 3000
	if w.thorough() {
		nt = 40000
	}
	for k := 0; k < nt; k++ {
		rr := r.Split()
		if !w.mine(k) {
			continue
		}
		size := []int{60, 300, 2000, 9000, 12000}[k%5]
		doc := gen.Doc(rr, gen.DocCfg{Size: size, MaxDepth: 5, MaxFan: 5, WS: k % 2, Esc: 10, NoLF: k%3 == 0})
		// cut after a random closing bracket
		var cuts []int
		for i, c := range doc {
			if c == '}' || c == ']' {
				cuts = append(cuts, i+1)
			}
		}
		if len(cuts) < 2 {
			continue
		}
		cut := cuts[rr.Intn(len(cuts)-1)]
		any("truncated-after-closer", doc[:cut])
		if k%4 == 0 {
			lines := append(append([]byte(`{"ok":1}`+"\n"), doc[:cut]...), []byte("\n")...)
			w.c17Judge(st, "nd-truncated-last-line", lines, true)
		}
	}
}

func replayC17(w *W, cs *ev.Case) {
	w.c17Judge(&c01State{}, cs.Gen, cs.Input, cs.A == 1)
}

// eachNDInput generates valid NDJSON inputs (lines of LF-free documents, with
// blank lines, CRLF and missing final newline mixed in).
func (w *W) eachNDInput(scale int, fn inputFn) {
	r := w.rng("ndinputs")
	n := 400 * scale
	for k := 0; k < n; k++ {
		rr := r.Split()
		if !w.mine(k) {
			continue
		}
		lines := rr.Range(1, 12)
		if k%50 == 0 {
			lines = rr.Range(200, 3000)
		}
		var b bytes.Buffer
		for l := 0; l < lines; l++ {
			if rr.Chance(1, 8) {
				b.WriteString([]string{"\n", " \n", "\r\n", "\t \r\n"}[rr.Intn(4)])
			}
			size := []int{2, 20, 80, 300}[rr.Intn(4)]
			if k%97 == 0 && l == 0 {
				size = 9000
			}
			b.Write(gen.Doc(rr, gen.DocCfg{Size: size, MaxDepth: 3, MaxFan: 5, WS: rr.Intn(2), Esc: 20, NoLF: true, DupKeys: true}))
			if l < lines-1 || rr.Bool() {
				if rr.Chance(1, 5) {
					b.WriteString("\r\n")
				} else {
					b.WriteByte('\n')
				}
			}
		}
		fn("nd", b.Bytes())
	}
}

// tapecheckSelfTest validates the checker on good and hand-corrupted tapes
// before it is trusted.
func (w *W) tapecheckSelfTest() {
	doc := []byte(`{"Image":{"Width":800,"Height":600,"Title":"View from 15th Floor","Thumbnail":{"Url":"http://www.example.com/image/481989943","Height":125,"Width":100},"Animated":false,"IDs":[116,943,234,38793],"f":1.5,"n":null}}`)
	pj, err := simdjson.Parse(doc, nil)
	if err != nil {
		w.Inconclusive("tapecheck self-test: README example does not parse: " + err.Error())
		return
	}
	if _, err := tapecheck.Check(pj, tapecheck.Options{}); err != nil {
		w.Inconclusive("tapecheck self-test: good tape rejected: " + err.Error())
		return
	}
	find := func(t *simdjson.ParsedJson, tag byte, nth int) int {
		for i, v := range t.Tape {
			if byte(v>>56) == tag {
				if nth == 0 {
					return i
				}
				nth--
			}
		}
		return -1
	}
	type corruption struct {
		name string
		f    func(t *simdjson.ParsedJson)
	}
	cors := []corruption{
		{"opening root payload -1", func(t *simdjson.ParsedJson) { t.Tape[0]-- }},
		{"closing root payload", func(t *simdjson.ParsedJson) { t.Tape[len(t.Tape)-1] |= 1 }},
		{"object start payload +1", func(t *simdjson.ParsedJson) { t.Tape[find(t, '{', 1)]++ }},
		{"object end payload", func(t *simdjson.ParsedJson) { t.Tape[find(t, '}', 0)] += 2 }},
		{"array start payload -1", func(t *simdjson.ParsedJson) { t.Tape[find(t, '[', 0)]-- }},
		{"array end swapped for object end", func(t *simdjson.ParsedJson) {
			i := find(t, ']', 0)
			t.Tape[i] = t.Tape[i]&0xffffffffffffff | uint64('}')<<56
		}},
		{"string length beyond buffer", func(t *simdjson.ParsedJson) { t.Tape[find(t, '"', 3)+1] = 1 << 40 }},
		{"string offset beyond buffer", func(t *simdjson.ParsedJson) { t.Tape[find(t, '"', 2)] |= 1 << 40 }},
		{"unknown tag", func(t *simdjson.ParsedJson) { t.Tape[find(t, 'n', 0)] = uint64('Z') << 56 }},
		{"number whose payload word would be the container's end", func(t *simdjson.ParsedJson) { t.Tape[find(t, 'n', 0)] = uint64('l') << 56 }},
		{"NOP in fresh tape", func(t *simdjson.ParsedJson) { t.Tape[find(t, 'f', 0)] = uint64('N')<<56 | 1 }},
	}
	for _, c := range cors {
		cl := pj.Clone(nil)
		c.f(cl)
		if _, err := tapecheck.Check(cl, tapecheck.Options{}); err == nil {
			w.Inconclusive("tapecheck self-test: corruption not detected: " + c.name)
			return
		}
		w.Count("selftest_corruptions_detected", 1)
	}
	// NOP rules
	cl := pj.Clone(nil)
	i := find(cl, 'l', 2)
	cl.Tape[i] = uint64('N')<<56 | 2
	cl.Tape[i+1] = uint64('N')<<56 | 1
	if _, err := tapecheck.Check(cl, tapecheck.Options{AllowNop: true, NopExact: true}); err != nil {
		w.Inconclusive("tapecheck self-test: exact NOP run rejected: " + err.Error())
		return
	}
	cl.Tape[i] = uint64('N')<<56 | 3
	if _, err := tapecheck.Check(cl, tapecheck.Options{AllowNop: true, NopExact: true}); err == nil {
		w.Inconclusive("tapecheck self-test: NOP skip landing past the next live entry not detected")
		return
	}
	cl.Tape[i] = uint64('N')<<56 | 1
	cl.Tape[i+1] = uint64('N')<<56 | 1
	if _, err := tapecheck.Check(cl, tapecheck.Options{AllowNop: true, NopExact: true}); err == nil {
		w.Inconclusive("tapecheck self-test: NOP skip landing on a NOP not detected in exact mode")
		return
	}
	w.Count("selftest_corruptions_detected", 2)
}
