// Command worker runs one (property, mode, shard) batch against the library.
// It is the only program that calls simdjson-go; the controller supervises it.
package main

import (
	"encoding/json"
	"flag"
	"fmt"
	"os"
	"runtime"
	"runtime/metrics"
	"runtime/pprof"
	"sort"
	"strings"
	"sync/atomic"
	"time"

	"verifharness/ev"
	"verifharness/gen"
	"verifharness/walk"
)

type runner struct {
	run    func(w *W)
	replay func(w *W, cs *ev.Case)
}

var registry = map[string]runner{}

func register(prop string, run func(w *W), replay func(w *W, cs *ev.Case)) {
	registry[prop] = runner{run, replay}
}

func main() {
	prop := flag.String("prop", "", "property id")
	mode := flag.String("mode", "", "mode within the property")
	variant := flag.String("variant", "plain", "build variant (informational)")
	tier := flag.String("tier", "quick", "quick|thorough")
	seed := flag.Uint64("seed", 1, "seed")
	shard := flag.Int("shard", 0, "shard index")
	nshards := flag.Int("nshards", 1, "number of shards")
	out := flag.String("out", "", "output file")
	journal := flag.String("journal", "", "journal file")
	replay := flag.String("replay", "", "replay file")
	repo := flag.String("repo", "/repo", "library source dir (for testdata)")
	skipUntil := flag.Int64("skip-until", 0, "resume: do not re-execute cases with sequence number <= this")
	memcap := flag.Int64("memcap-mb", 0, "exit with status 7 when live heap exceeds this many MiB (resource-bound monitor; arms a ticker)")
	cpuprof := flag.String("cpuprofile", "", "write a CPU profile")
	flag.Parse()
	gen.RepoDir = *repo
	if *cpuprof != "" {
		f, _ := os.Create(*cpuprof)
		pprof.StartCPUProfile(f)
		defer pprof.StopCPUProfile()
		if d := os.Getenv("VERIF_DEBUG_STOP_AFTER"); d != "" {
			// profiling aid only (never set by the controller)
			if sec, err := time.ParseDuration(d); err == nil {
				go func() { time.Sleep(sec); pprof.StopCPUProfile(); os.Exit(0) }()
			}
		}
	}

	if hp := os.Getenv("VERIF_DEBUG_HEAPPROF"); hp != "" {
		// profiling aid only (never set by the controller): heap profile after VERIF_DEBUG_STOP_AFTER, then exit
		if sec, err := time.ParseDuration(os.Getenv("VERIF_DEBUG_STOP_AFTER")); err == nil {
			go func() {
				time.Sleep(sec)
				runtime.GC()
				f, _ := os.Create(hp)
				pprof.Lookup("heap").WriteTo(f, 0)
				f.Close()
				os.Exit(0)
			}()
		}
	}
	if *memcap > 0 {
		go memMonitor(*memcap << 20)
	}
	r, ok := registry[*prop]
	if !ok {
		var ids []string
		for k := range registry {
			ids = append(ids, k)
		}
		sort.Strings(ids)
		fmt.Fprintf(os.Stderr, "unknown property %q (have %s)\n", *prop, strings.Join(ids, " "))
		os.Exit(3)
	}
	ctx, err := ev.NewCtx(*prop, *mode, *variant, *tier, *seed, *shard, *nshards, *out, *journal)
	if err != nil {
		fmt.Fprintln(os.Stderr, "ctx:", err)
		os.Exit(3)
	}
	ctx.SkipUntil = *skipUntil
	w := newW(ctx)
	start := time.Now()
	if *replay != "" {
		raw, err := os.ReadFile(*replay)
		if err != nil {
			fmt.Fprintln(os.Stderr, err)
			os.Exit(3)
		}
		var rf struct {
			Case *ev.Case `json:"case"`
			Mode string   `json:"mode"`
		}
		if err := json.Unmarshal(raw, &rf); err != nil || rf.Case == nil {
			fmt.Fprintln(os.Stderr, "bad replay file:", err)
			os.Exit(3)
		}
		if rf.Mode != "" && *mode == "" {
			ctx.Out.Mode = rf.Mode
		}
		if rf.Case.Gen == "held-strings" {
			// a whole-run witness: run the shard that saw it again (seed, shard, shards, tier)
			ctx, err = ev.NewCtx(*prop, ctx.Out.Mode, *variant, rf.Case.Text, uint64(rf.Case.A), int(rf.Case.B), int(rf.Case.C), "", "")
			if err != nil {
				fmt.Fprintln(os.Stderr, "ctx:", err)
				os.Exit(3)
			}
			w = newW(ctx)
			r.run(w)
			heldVerdict(ctx, *prop)
			ctx.Finish()
			if ctx.Out.ViolTotal > 0 {
				fmt.Printf("replay: %d violation(s)\n", ctx.Out.ViolTotal)
				os.Exit(1)
			}
			fmt.Println("replay: no violation")
			return
		}
		ctx.SetReplay()
		if r.replay == nil {
			fmt.Fprintln(os.Stderr, "property has no single-case replay")
			os.Exit(3)
		}
		r.replay(w, rf.Case)
		ctx.Finish()
		if ctx.Out.ViolTotal > 0 {
			fmt.Printf("replay: %d violation(s)\n", ctx.Out.ViolTotal)
			os.Exit(1)
		}
		fmt.Println("replay: no violation")
		return
	}
	r.run(w)
	heldVerdict(ctx, *prop)
	ctx.Out.Extra["wall_s"] = time.Since(start).Seconds()
	if err := ctx.Finish(); err != nil {
		fmt.Fprintln(os.Stderr, "finish:", err)
		os.Exit(3)
	}
}

// heldVerdict: strings the API handed out earlier in the run must still read what they read then.
func heldVerdict(ctx *ev.Ctx, prop string) {
	bad, n := walk.HeldReport()
	if n == 0 {
		return
	}
	ctx.Count("returned_go_strings_re-examined_later", int(n))
	if bad != "" {
		ctx.Violation(prop+"/returned-string-changed-later", bad+" (a Go string handed out by the API changed after the object it came from was reused, edited or its input overwritten)",
			&ev.Case{Gen: "held-strings", A: int64(ctx.Out.Seed), B: int64(ctx.Out.Shard), C: int64(ctx.Out.NShards), Text: ctx.Out.Tier})
	}
}

// armCall / disarmCall bracket single calls under test that are bounded by contract. The
// processor-time bound on them is enforced from outside, by the controller (which watches the
// worker's CPU time against the progress of its journal): a monitor goroutine with a ticker
// in here would keep the Go runtime from reporting "all goroutines are asleep - deadlock!",
// which is itself one of the monitors.
func armCall()    {}
func disarmCall() {}

// memMonitor enforces a resource bound on the calls under test: a traversal
// that makes the live heap grow beyond the cap (orders of magnitude above any
// input this worker handles) is not "bounded". The verdict is the byte count,
// not elapsed time; the ticker only decides how soon it is noticed. The case
// in flight is in the journal.
// memArmed limits the monitor to the phases that are bounded by contract
// (traversals of results); callers set it around those calls.
var memArmed atomic.Bool

func memMonitor(cap int64) {
	samples := []metrics.Sample{{Name: "/memory/classes/heap/objects:bytes"}}
	t := time.NewTicker(20 * time.Millisecond)
	for range t.C {
		if !memArmed.Load() {
			continue
		}
		metrics.Read(samples)
		if v := samples[0].Value; v.Kind() == metrics.KindUint64 && int64(v.Uint64()) > cap {
			// the metric includes garbage that is not swept yet: collect, then judge the live heap
			runtime.GC()
			metrics.Read(samples)
			v = samples[0].Value
			if int64(v.Uint64()) <= cap || !memArmed.Load() {
				continue
			}
			fmt.Fprintf(os.Stderr, "\nRESOURCE-BOUND-EXCEEDED live heap %d bytes > cap %d while executing the journaled case\n", v.Uint64(), cap)
			buf := make([]byte, 1<<16)
			n := runtime.Stack(buf, true)
			os.Stderr.Write(buf[:n])
			os.Exit(7)
		}
	}
}
