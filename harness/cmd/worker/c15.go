package main

import (
	"bytes"
	"fmt"
	"strings"

	simdjson "github.com/minio/simdjson-go"

	"verifharness/ev"
	"verifharness/gen"
	"verifharness/ref"
	"verifharness/walk"
)

func init() { register("C15", runC15, replayC15) }

// c15Input builds an input of a given class.
// class: 0 valid, 1 stage-1 failure (unterminated string / raw control char in the last string / bad end),
// 2 stage-2 failure at the start, 3 in the middle, 4 at the end.
func c15Input(r *gen.Rand, class int, size int, nd bool) []byte {
	var doc []byte
	if nd {
		var b bytes.Buffer
		for b.Len() < size {
			b.Write(gen.Doc(r.Split(), gen.DocCfg{Size: 20 + r.Intn(200), MaxDepth: 3, MaxFan: 5, Esc: 20, NoLF: true, DupKeys: true}))
			b.WriteByte('\n')
		}
		doc = b.Bytes()
	} else {
		dens := r.Intn(4)
		if dens == 3 {
			doc = gen.Doc(r.Split(), gen.DocCfg{Size: size, MaxDepth: 5, MaxFan: 8, WS: r.Intn(2), Esc: 20, LongStr: 10, DupKeys: true})
		} else {
			doc = gen.Aperiodic(r.Split(), size, dens)
		}
	}
	switch class {
	case 1:
		switch r.Intn(3) {
		case 0:
			return append(append([]byte{}, doc[:len(doc)-1]...), []byte(`,"unterminated`)...)
		case 1:
			i := bytes.LastIndexByte(doc, '"')
			if i > 0 {
				return append(append(append([]byte{}, doc[:i]...), 0x01), doc[i:]...)
			}
			return append(append([]byte{}, doc...), 'x')
		default:
			return append(append([]byte{}, doc...), ',')
		}
	case 2:
		if nd {
			return append([]byte("{\"a\":tru}\n"), doc...)
		}
		return append(append([]byte{doc[0]}, []byte("tru,")...), doc[1:]...)
	case 3:
		mid := len(doc) / 2
		for mid < len(doc) && doc[mid] != ',' {
			mid++
		}
		if mid >= len(doc)-1 {
			return append(append([]byte{}, doc[:len(doc)-1]...), []byte(",]")...)
		}
		return append(append(append([]byte{}, doc[:mid+1]...), []byte("nul,")...), doc[mid+1:]...)
	case 4:
		d := bytes.TrimRight(doc, "\n")
		last := d[len(d)-1]
		return append(append(append([]byte{}, d[:len(d)-1]...), []byte(",fals")...), last)
	}
	return doc
}

type c15Obj struct {
	ptr *simdjson.ParsedJson // pointer style: what the last call returned (nil after failures)
	val simdjson.ParsedJson  // struct-copy style: keeps the internal state across failures
	has bool
}

// outcome of one parse call, in comparable form
type c15Outcome struct {
	ok      bool
	roots   []*ref.Value
	text    []byte
	walkErr error
}

func c15Observe(pj *simdjson.ParsedJson, err error) c15Outcome {
	o := c15Outcome{ok: err == nil}
	if err != nil {
		return o
	}
	o.roots, o.walkErr = walk.Into(pj)
	if o.walkErr == nil {
		it := pj.Iter()
		o.text, o.walkErr = it.MarshalJSON()
	}
	return o
}

func c15Same(a, b c15Outcome) string {
	if a.ok != b.ok {
		return fmt.Sprintf("with reuse ok=%v, fresh ok=%v", a.ok, b.ok)
	}
	if !a.ok {
		return ""
	}
	if (a.walkErr == nil) != (b.walkErr == nil) {
		return fmt.Sprintf("reading the result: with reuse %v, fresh %v", a.walkErr, b.walkErr)
	}
	if a.walkErr != nil {
		return ""
	}
	if d := cmpRoots(b.roots, a.roots, nil, false); d != "" {
		return "documents differ: " + d
	}
	if !bytes.Equal(a.text, b.text) {
		return fmt.Sprintf("marshalled bytes differ: %s vs %s", q(a.text), q(b.text))
	}
	return ""
}

func (w *W) c15Program(k int) {
	hseed := int64(w.Out.Seed)*3000017 + int64(k)
	cs := &ev.Case{Gen: "c15-program", A: hseed, B: int64(k)}
	if c15SerPanicBudget <= 0 {
		cs.C = 1 // this program runs without recovered-Serialize-panic steps (replay does the same)
	}
	w.Journal(cs)
	if w.Skip() {
		return
	}
	r := gen.New(uint64(hseed), "c15")
	objs := make([]c15Obj, 2)
	var trace []string
	steps := 3 + r.Intn(18)
	sizes := []int{40, 600, 5000, 8100, 8300, 20000, 120000}
	nontrivial := false
	failures, calls := 0, 0
	ser := simdjson.NewSerializer()
	var serDst *simdjson.ParsedJson
	prevSize := 0
	for s := 0; s < steps; s++ {
		op := r.Intn(10)
		switch {
		case op < 7: // Parse / ParseND with reuse
			oi := r.Intn(len(objs))
			o := &objs[oi]
			nd := r.Chance(1, 4)
			class := 0
			if r.Chance(2, 5) {
				class = 1 + r.Intn(4)
			}
			size := sizes[r.Intn(len(sizes))]
			if r.Chance(1, 6) && prevSize > 0 {
				if prevSize > 2000 {
					size = prevSize / 100
				} else {
					size = prevSize * 100
				}
			}
			if size < 4 {
				size = 4
			}
			if size > 400000 {
				size = 400000
			}
			prevSize = size
			in := c15Input(r, class, size, nd)
			cp := r.Bool()
			style := r.Intn(3) // 0 pointer, 1 struct copy, 2 nil (fresh, to vary the history)
			var reuse *simdjson.ParsedJson
			var tmp simdjson.ParsedJson
			switch style {
			case 0:
				reuse = o.ptr
				if reuse != nil && r.Chance(1, 4) {
					reuse.Reset() // documented way to recycle: lengths to zero, capacity kept
				}
			case 1:
				if o.has {
					tmp = o.val
					reuse = &tmp
				}
			}
			cfg := Config{AVX512: r.Bool() && w.hasAVX512, Copy: cp}
			w.setKernel(cfg.AVX512)
			desc := fmt.Sprintf("%s(class%d,%dB,copy=%v,reuse=%s)", map[bool]string{false: "Parse", true: "ParseND"}[nd], class, len(in), cp, []string{"pointer", "struct-copy", "nil"}[style])
			trace = append(trace, desc)
			// the library may keep references into the input: give it a private copy that is scribbled over afterwards
			buf := append([]byte{}, in...)
			var pj *simdjson.ParsedJson
			var err error
			// copy mode is requested either explicitly or by passing no option at all (the default)
			var opts []simdjson.ParserOption
			if !cp || r.Bool() {
				opts = append(opts, simdjson.WithCopyStrings(cp))
			} else {
				desc += "[default options]"
				trace[len(trace)-1] = desc
			}
			perr := walk.Guard(func() error {
				if nd {
					pj, err = simdjson.ParseND(buf, reuse, opts...)
				} else {
					pj, err = simdjson.Parse(buf, reuse, opts...)
				}
				return nil
			})
			calls++
			w.Eval(1)
			key := fmt.Sprintf("%s/class%d/%s", map[bool]string{false: "Parse", true: "ParseND"}[nd], class, []string{"pointer", "struct-copy", "nil"}[style])
			if perr != nil {
				w.Violation("C15/panic/"+key, fmt.Sprintf("call with a reused object panicked: %v; history=%v", perr, lastN(trace, 8)), cs)
				return
			}
			if (err == nil) == (pj == nil) {
				w.Violation("C15/error-and-result/"+key, fmt.Sprintf("err=%v result-nil=%v; history=%v", err, pj == nil, lastN(trace, 8)), cs)
				return
			}
			got := c15Observe(pj, err)
			// same call on fresh objects
			fbuf := append([]byte{}, in...)
			var fpj *simdjson.ParsedJson
			var ferr error
			if nd {
				fpj, ferr = simdjson.ParseND(fbuf, nil, simdjson.WithCopyStrings(cp))
			} else {
				fpj, ferr = simdjson.Parse(fbuf, nil, simdjson.WithCopyStrings(cp))
			}
			want := c15Observe(fpj, ferr)
			if err == nil && ferr == nil {
				// the exported buffers of the document as well: nothing of what the object held
				// before may be part of them (the string buffer of a reused object starts empty)
				if d := c15ExportedSame(pj, fpj); d != "" {
					w.Violation("C15/exported-buffers-differ-from-fresh/"+key, fmt.Sprintf("%s: same document, but %s; history=%v", desc, d, lastN(trace, 8)), cs)
					return
				}
			}
			if d := c15Same(got, want); d != "" {
				w.Violation("C15/differs-from-fresh/"+key, fmt.Sprintf("%s: %s; history=%v", desc, d, lastN(trace, 8)), cs)
				return
			}
			if err == nil && cp {
				// string copying is on for THIS call whatever earlier calls on the object used:
				// scribbling over the input must not change the document
				for i := range buf {
					buf[i] = '#'
				}
				after := c15Observe(pj, nil)
				if d := c15Same(after, want); d != "" {
					w.Violation("C15/option-leak/copy-strings/"+key, fmt.Sprintf("%s: after overwriting the input the document changed although strings are copied by default: %s; history=%v", desc, d, lastN(trace, 8)), cs)
					return
				}
			}
			// channel state of the reused internal object
			if l, c, ok := simdjson.VerifChanState(pj); ok && l != 0 {
				w.Violation("C15/index-channel-not-drained/"+key, fmt.Sprintf("index channel holds %d/%d entries after the call returned; history=%v", l, c, lastN(trace, 8)), cs)
				return
			}
			if o.has {
				if l, _, ok := simdjson.VerifChanState(&o.val); ok && l != 0 {
					w.Violation("C15/index-channel-not-drained/"+key, fmt.Sprintf("inherited index channel holds %d entries after the call returned; history=%v", l, lastN(trace, 8)), cs)
					return
				}
			}
			if err == nil {
				o.ptr = pj
				if !nd {
					o.val = *pj
					o.has = true
				}
			} else {
				failures++
				if style != 2 {
					// the failed call worked inside the object's internal state: whatever an
					// earlier call returned from it is gone (reuse invalidates earlier results)
					o.ptr = nil
				}
			}
			if calls >= 2 && (failures >= 1 || len(in) > 8192) {
				nontrivial = true
			}
			w.Count(fmt.Sprintf("calls_class%d", class), 1)
			if len(in) > 8192 {
				w.Count("calls_above_8KiB", 1)
			}
		case op < 8: // in-place edit of a live object before it is reused
			o := &objs[r.Intn(len(objs))]
			if o.ptr == nil {
				continue
			}
			walk.Guard(func() error {
				it := o.ptr.Iter()
				n := 0
				for {
					tag := it.AdvanceInto()
					if tag == simdjson.TagEnd || n > 40 {
						break
					}
					n++
					switch tag {
					case simdjson.TagString:
						if r.Chance(1, 3) {
							it.SetString("edited-" + strings.Repeat("e", r.Intn(40)))
						}
					case simdjson.TagInteger, simdjson.TagFloat, simdjson.TagUint:
						if r.Chance(1, 3) {
							it.SetNull()
						}
					case simdjson.TagObjectStart, simdjson.TagArrayStart:
						if n > 1 && r.Chance(1, 6) {
							it.SetNull() // leaves a run of deleted entries behind
						}
					}
				}
				return nil
			})
			trace = append(trace, "edit")
		default: // Serializer / Deserialize destination reuse
			o := &objs[r.Intn(len(objs))]
			if o.ptr == nil {
				continue
			}
			mode := compModes[r.Intn(4)]
			ser.CompressMode(mode)
			var blob []byte
			var out *simdjson.ParsedJson
			var derr error
			src := o.ptr.Clone(nil)
			if r.Chance(1, 4) {
				// first a blob whose framing is intact but whose compressed payload is damaged: the
				// failure comes from inside a block decoder; nothing of it may survive in the Serializer
				walk.Guard(func() error {
					ser.CompressMode(compModes[1+r.Intn(3)])
					bad := ser.Serialize(nil, *src)
					if len(bad) > 24 {
						orig := append([]byte{}, bad...)
						for k := 0; k < 3; k++ {
							bad[len(bad)/3+r.Intn(len(bad)-len(bad)/3)] ^= byte(1 + r.Intn(255))
						}
						if damageAllocatable(orig, bad) {
							ser.Deserialize(bad, serDst)
						} else {
							w.Count("damaged_blobs_declaring_huge_sizes_skipped", 1)
						}
					}
					ser.CompressMode(mode)
					return nil
				})
				trace = append(trace, "deser(payload-damaged)")
			}
			if r.Chance(1, 4) {
				// a blob whose framing parses but whose sections do not add up (a block missing, cut
				// short, or declared one byte longer than it is): whatever Deserialize makes of it, it
				// makes the same of it on the reused Serializer and destination as on fresh ones
				var bad []byte
				walk.Guard(func() error {
					ser.CompressMode(compModes[r.Intn(4)])
					good := ser.Serialize(nil, *src)
					ser.CompressMode(mode)
					c, err := parseContainer(good)
					if err != nil {
						return nil
					}
					sec := 1 + r.Intn(3)
					switch r.Intn(3) {
					case 0:
						c.present[sec] = false
					case 1:
						c.plain[sec] = c.plain[sec][:len(c.plain[sec])/2]
					default:
						c.secSize[sec]++
					}
					bad = c.build()
					return nil
				})
				if bad != nil && damageAllocatable(bad, bad) {
					var o1, o2 *simdjson.ParsedJson
					var e1, e2 error
					p1 := walk.Guard(func() error { o1, e1 = ser.Deserialize(bad, serDst); return nil })
					p2 := walk.Guard(func() error { o2, e2 = simdjson.NewSerializer().Deserialize(bad, nil); return nil })
					trace = append(trace, "deser(sections do not add up)")
					w.Eval(1)
					if (p1 != nil) != (p2 != nil) || (e1 != nil) != (e2 != nil) {
						w.Violation("C15/malformed-blob/outcome-depends-on-history", fmt.Sprintf("a blob whose sections do not add up: reused Serializer/destination gives (panic=%v, err=%v), fresh ones give (panic=%v, err=%v); history=%v", p1, e1, p2, e2, lastN(trace, 8)), cs)
						return
					}
					if p1 == nil && e1 == nil {
						a, ea := walk.Into(o1)
						b, eb := walk.Into(o2)
						if (ea != nil) != (eb != nil) || ea == nil && cmpRoots(b, a, nil, false) != "" {
							w.Violation("C15/malformed-blob/document-depends-on-history", fmt.Sprintf("a blob whose sections do not add up is accepted and read as different documents by a reused and a fresh Serializer/destination: %v | %v | %s; history=%v", ea, eb, cmpRoots(b, a, nil, false), lastN(trace, 8)), cs)
							return
						}
					}
					if e1 != nil && serDst != nil {
						serDst = nil // contents undefined after a failed call; start over
					}
					w.Count("malformed_blobs_compared_with_fresh_objects", 1)
				}
			}
			if r.Chance(1, 6) && cs.C == 0 {
				// (at most c15SerPanicBudget of these per process: a Serialize that panics half-way
				// leaves its block compressors unclosed, and each keeps megabytes of buffers alive
				// through its blocked writer goroutine; a thorough shard grew to 38 GB that way)
				c15SerPanicBudget--
				// a Serialize call that fails the only way it can (it panics on a tape it cannot
				// represent: here a string entry pointing far outside the buffers, placed behind
				// other strings) and is recovered by the caller; the Serializer is then used again
				walk.Guard(func() error {
					bad := src.Clone(nil)
					seen := 0
					for i := 0; i < len(bad.Tape); i++ {
						if byte(bad.Tape[i]>>56) == '"' {
							if seen++; seen >= 3 {
								bad.Tape[i] = uint64('"')<<56 | 1<<40
								break
							}
							i++
						} else if t := byte(bad.Tape[i] >> 56); t == 'l' || t == 'u' || t == 'd' {
							i++
						}
					}
					ser.Serialize(nil, *bad)
					return nil
				})
				trace = append(trace, "ser(unrepresentable tape, recovered)")
			}
			perr := walk.Guard(func() error {
				blob = ser.Serialize(nil, *src)
				out, derr = ser.Deserialize(blob, serDst)
				return nil
			})
			trace = append(trace, fmt.Sprintf("ser+deser(mode%d,dst-reused=%v)", mode, serDst != nil))
			w.Eval(1)
			if perr != nil || derr != nil {
				w.Violation("C15/serializer-reuse/failure", fmt.Sprintf("a reused Serializer/destination failed: %v %v; history=%v", perr, derr, lastN(trace, 8)), cs)
				return
			}
			fs := simdjson.NewSerializer()
			fs.CompressMode(mode)
			fout, ferr := fs.Deserialize(fs.Serialize(nil, *src), nil)
			if ferr != nil {
				continue
			}
			// one Serializer serves the whole run of this worker (tens of megabytes of distinct strings
			// and thousands of calls go through it): what it writes for this document reads back as
			// what a new Serializer writes
			{
				if c15LongSer == nil {
					c15LongSer = simdjson.NewSerializer()
				}
				c15LongSer.CompressMode(mode)
				var lout *simdjson.ParsedJson
				var lerr error
				lp := walk.Guard(func() error {
					lout, lerr = simdjson.NewSerializer().Deserialize(c15LongSer.Serialize(nil, *src), nil)
					return nil
				})
				c15LongCalls++
				w.Eval(1)
				bad := ""
				if lp != nil || lerr != nil {
					bad = fmt.Sprintf("%v %v", lp, lerr)
				} else {
					la, lea := walk.Into(lout)
					lb, leb := walk.Into(fout)
					if lea != nil || leb != nil || cmpRoots(lb, la, nil, false) != "" {
						bad = fmt.Sprintf("%v %v %s", lea, leb, cmpRoots(lb, la, nil, false))
					}
				}
				if bad != "" {
					w.Violation("C15/long-lived-serializer", fmt.Sprintf("a Serializer that has served %d earlier Serialize calls of this worker fails or writes another document than a new one: %s; history=%v", c15LongCalls-1, bad, lastN(trace, 4)), cs)
					c15LongSer = nil
					return
				}
				w.Max("max_calls_on_one_long_lived_serializer", int64(c15LongCalls))
			}
			a, ea := walk.Into(out)
			b, eb := walk.Into(fout)
			if ea != nil || eb != nil || cmpRoots(b, a, nil, false) != "" {
				w.Violation("C15/serializer-reuse/differs-from-fresh", fmt.Sprintf("reused Serializer/destination gives another document than fresh ones: %v %v %s; history=%v", ea, eb, cmpRoots(b, a, nil, false), lastN(trace, 8)), cs)
				return
			}
			// the result in the reused destination must also behave like the fresh one under
			// whole-tape consumers: Clone, then Serialize, then read
			if r.Bool() {
				var again *simdjson.ParsedJson
				var aerr error
				perr := walk.Guard(func() error {
					again, aerr = fs.Deserialize(fs.Serialize(nil, *out.Clone(nil)), nil)
					return nil
				})
				var c []*ref.Value
				var ec error
				if perr == nil && aerr == nil {
					c, ec = walk.Into(again)
				}
				if perr != nil || aerr != nil || ec != nil || cmpRoots(b, c, nil, false) != "" {
					w.Violation("C15/serializer-reuse/second-generation", fmt.Sprintf("serializing the document held by a reused destination fails or differs where the fresh one does not: %v %v %v %s; history=%v", perr, aerr, ec, cmpRoots(b, c, nil, false), lastN(trace, 8)), cs)
					return
				}
				w.Count("second_generation_round_trips", 1)
			}
			if r.Bool() {
				serDst = out
			}
			w.Count("serializer_reuse_steps", 1)
		}
	}
	if nontrivial {
		w.Nontrivial(uint64(hseed))
	}
	w.Count("programs", 1)
	w.Count("failed_calls_in_histories", failures)
	if w.WantSample() {
		w.Sample(map[string]interface{}{"program": k, "history": lastN(trace, 10)})
	}
}

// c15SerializerSizes: one Serializer across documents on both sides of its
// 64 Ki internal buffers, in every order (deserialize big, small, serialize medium, ...).
func (w *W) c15SerializerSizes(k int) {
	hseed := int64(w.Out.Seed)*3000017 + 500000000 + int64(k)
	cs := &ev.Case{Gen: "c15-serializer-sizes", A: hseed, B: int64(k)}
	w.Journal(cs)
	if w.Skip() {
		return
	}
	r := gen.New(uint64(hseed), "c15s")
	mk := func(n int) *simdjson.ParsedJson {
		pj, err := simdjson.Parse([]byte("["+strings.Repeat("true,", n)+`"s",1]`), nil)
		if err != nil {
			return nil
		}
		return pj
	}
	docs := []*simdjson.ParsedJson{mk(3), mk(200), mk(40000), mk(66000), mk(140000)}
	ser := simdjson.NewSerializer()
	ser.CompressMode(compModes[k%4])
	other := simdjson.NewSerializer()
	var trace []string
	for s := 0; s < 8; s++ {
		d := docs[r.Intn(len(docs))]
		if d == nil {
			continue
		}
		want, _ := walk.Into(d)
		if r.Bool() {
			blob := other.Serialize(nil, *d)
			var out *simdjson.ParsedJson
			var err error
			perr := walk.Guard(func() error { out, err = ser.Deserialize(blob, nil); return nil })
			trace = append(trace, fmt.Sprintf("deser(%d words)", len(d.Tape)))
			w.Eval(1)
			if perr != nil || err != nil {
				w.Violation("C15/serializer-sizes/Deserialize", fmt.Sprintf("%v %v; history=%v", perr, err, trace), cs)
				return
			}
			got, e := walk.Into(out)
			if dd := cmpRoots(want, got, e, false); dd != "" {
				w.Violation("C15/serializer-sizes/Deserialize-differs", fmt.Sprintf("%s; history=%v", dd, trace), cs)
				return
			}
		} else {
			var blob []byte
			perr := walk.Guard(func() error { blob = ser.Serialize(nil, *d); return nil })
			trace = append(trace, fmt.Sprintf("ser(%d words)", len(d.Tape)))
			w.Eval(1)
			if perr != nil {
				w.Violation("C15/serializer-sizes/Serialize-panic", fmt.Sprintf("Serialize on a reused Serializer panicked where a fresh one succeeds: %v; history=%v", perr, trace), cs)
				return
			}
			out, err := other.Deserialize(blob, nil)
			got, e := walk.Into(out)
			if err != nil || cmpRoots(want, got, e, false) != "" {
				w.Violation("C15/serializer-sizes/Serialize-differs", fmt.Sprintf("%v %s; history=%v", err, cmpRoots(want, got, e, false), trace), cs)
				return
			}
		}
	}
	// and the worker's long-lived Serializer gets about 2 MiB of strings it has never seen before
	// (cumulative volume over the run: tens of megabytes, beyond any internal table or offset width
	// that a single document never reaches)
	{
		var b bytes.Buffer
		b.WriteByte('[')
		for i := 0; i < 40000; i++ {
			if i > 0 {
				b.WriteByte(',')
			}
			fmt.Fprintf(&b, `"%016x-%016x-%08x"`, r.Uint64(), uint64(hseed), i)
		}
		b.WriteByte(']')
		pj, err := simdjson.Parse(b.Bytes(), nil)
		if err == nil {
			if c15LongSer == nil {
				c15LongSer = simdjson.NewSerializer()
			}
			c15LongSer.CompressMode(compModes[k%4])
			var lout *simdjson.ParsedJson
			var lerr error
			lp := walk.Guard(func() error {
				lout, lerr = simdjson.NewSerializer().Deserialize(c15LongSer.Serialize(nil, *pj), nil)
				return nil
			})
			c15LongCalls++
			c15LongBytes += int64(b.Len())
			w.Eval(1)
			bad := ""
			if lp != nil || lerr != nil {
				bad = fmt.Sprintf("%v %v", lp, lerr)
			} else {
				want, _ := walk.Into(pj)
				got, e := walk.Into(lout)
				bad = cmpRoots(want, got, e, false)
			}
			if bad != "" {
				w.Violation("C15/long-lived-serializer/fresh-strings", fmt.Sprintf("a Serializer that has served %d earlier calls (%d bytes of never-seen strings in these histories) fails or writes another document than it was given: %s", c15LongCalls-1, c15LongBytes, bad), cs)
				c15LongSer = nil
				return
			}
			w.Max("max_bytes_of_fresh_strings_through_one_serializer", c15LongBytes)
		}
	}
	w.Count("serializer_size_histories", 1)
	w.Nontrivial(uint64(hseed))
}

// c15ExportedSame compares the exported Tape and Strings.B of a document parsed into a reused object
// with those of the same input parsed into fresh objects.
func c15ExportedSame(a, b *simdjson.ParsedJson) string {
	if len(a.Tape) != len(b.Tape) {
		return fmt.Sprintf("Tape has %d words, %d when parsed without reuse", len(a.Tape), len(b.Tape))
	}
	for i := range a.Tape {
		if a.Tape[i] != b.Tape[i] {
			return fmt.Sprintf("Tape[%d] = %#x, %#x when parsed without reuse", i, a.Tape[i], b.Tape[i])
		}
	}
	var sa, sb []byte
	if a.Strings != nil {
		sa = a.Strings.B
	}
	if b.Strings != nil {
		sb = b.Strings.B
	}
	if !bytes.Equal(sa, sb) {
		return fmt.Sprintf("Strings.B holds %d bytes (%.40q...), %d (%.40q...) when parsed without reuse", len(sa), sa, len(sb), sb)
	}
	return ""
}

var (
	c15LongSer   *simdjson.Serializer
	c15LongCalls int
	c15LongBytes int64
)

// c15SerPanicBudget: how many recovered Serialize panics a worker process still provokes.
var c15SerPanicBudget = 60

func runC15(w *W) {
	n := 9000
	ns := 160
	if w.thorough() {
		n = 250000
		ns = 3000
	}
	if w.Out.Variant == "race" {
		n /= 10
		ns /= 8
	}
	for k := 0; k < n; k++ {
		if w.mine(k) {
			w.c15Program(k)
		}
	}
	for k := 0; k < ns; k++ {
		if w.mine(k) {
			w.c15SerializerSizes(k)
		}
	}
}

func replayC15(w *W, cs *ev.Case) {
	w.Out.NShards = 1
	if cs.Gen == "c15-serializer-sizes" {
		w.Out.Seed = uint64((cs.A - cs.B - 500000000) / 3000017)
		w.c15SerializerSizes(int(cs.B))
		return
	}
	w.Out.Seed = uint64((cs.A - cs.B) / 3000017)
	if cs.C == 1 {
		c15SerPanicBudget = 0
	}
	w.c15Program(int(cs.B))
}
