package main

import (
	"bytes"
	"fmt"
	"strings"

	"verifharness/ev"
	"verifharness/gen"
	"verifharness/ref"
	"verifharness/walk"
)

func init() { register("C08", runC08, replayC08) }

type c08State struct {
	n   int
	idx int
	min int
}

// c08Oracle: what ParseND must do with in, judged by Parse per line.
// Returns (judgeable, expectOK, expected roots).
func (w *W) c08Oracle(in []byte, cfg Config) (judge bool, ok bool, want []*ref.Value, why string) {
	lines, _ := ref.SplitLines(in)
	if len(lines) == 0 {
		return false, false, nil, "no non-blank line"
	}
	ok = true
	for _, ln := range lines {
		if !bytes.Equal(ref.TrimJSONWS(ln), bytes.TrimSpace(ln)) {
			return false, false, nil, "non-JSON Unicode white space at a line edge"
		}
		a := ref.Analyze(ln)
		if a.Class == ref.Either {
			return false, false, nil, "line outside C01's claim"
		}
		pj, err, pan := w.parseMin(ln, cfg, false)
		if pan != nil {
			return false, false, nil, "Parse panicked on a line"
		}
		if (err == nil) != (a.Class == ref.MustAccept) {
			// Parse itself is wrong on this line (C01's business). The statement measures ParseND
			// against Parse per line, so acceptance is still judged (with Parse's own verdict);
			// the values of this input are not compared
			w.Count("lines_where_Parse_disagrees_with_the_reference_(C01)", 1)
			why = "acceptance-only"
		}
		if err != nil {
			ok = false
			continue
		}
		_ = pj
		want = append(want, a.Value)
	}
	return true, ok, want, why
}

func (w *W) c08Verdict(in []byte, cfg Config, fresh bool) (bad string, judged bool, lines int) {
	judge, ok, want, why := w.c08Oracle(in, cfg)
	if !judge {
		w.Count("not_judged: "+why, 1)
		return "", false, 0
	}
	pj, err, pan := w.parseGuarded(in, cfg, true, fresh)
	if pan != nil {
		return "ParseND panicked: " + pan.Error(), true, len(want)
	}
	if (err == nil) == (pj == nil) {
		return fmt.Sprintf("ParseND returned err=%v result-nil=%v", err, pj == nil), true, len(want)
	}
	if ok && err != nil {
		return fmt.Sprintf("every non-blank line is accepted by Parse, but ParseND fails: %v", err), true, len(want)
	}
	if !ok && err == nil {
		return "some non-blank line is rejected by Parse, but ParseND succeeds", true, len(want)
	}
	if err != nil || why == "acceptance-only" {
		return "", true, len(want)
	}
	got, werr := walk.Into(pj)
	if werr != nil {
		return "walking the ParseND result: " + werr.Error(), true, len(want)
	}
	if len(got) != len(want) {
		return fmt.Sprintf("ParseND exposes %d roots, the input has %d documents", len(got), len(want)), true, len(want)
	}
	for i := range want {
		if d := ref.Diff(want[i], got[i]); d != "" {
			return fmt.Sprintf("root %d differs from line %d: %s", i, i, d), true, len(want)
		}
	}
	// ForEach route as well
	got2, werr := walk.IterCB(pj)
	if werr != nil {
		return "ParsedJson.ForEach over the ParseND result: " + werr.Error(), true, len(want)
	}
	if len(got2) != len(want) {
		return fmt.Sprintf("ParsedJson.ForEach yields %d roots, want %d", len(got2), len(want)), true, len(want)
	}
	for i := range want {
		if d := ref.Diff(want[i], got2[i]); d != "" {
			return fmt.Sprintf("ForEach root %d differs: %s", i, d), true, len(want)
		}
	}
	return "", true, len(want)
}

func (w *W) c08Judge(st *c08State, g string, in []byte) {
	st.idx++
	if !w.mine(st.idx) {
		return
	}
	cs := &ev.Case{Gen: g, Input: in}
	w.Journal(cs)
	if w.Skip() {
		return
	}
	st.n++
	nontrivial := false
	for ci, cfg := range w.configs() {
		bad, judged, nl := w.c08Verdict(in, cfg, (st.n+ci)%64 == 0)
		if !judged {
			continue
		}
		w.Eval(1)
		total := bytes.Count(in, []byte("\n")) + 1
		if total >= 2 && nl >= 1 {
			nontrivial = true
		}
		w.Max("max_documents_per_input", int64(nl))
		if len(in) > 8192 {
			w.Count("inputs_async_path", 1)
		}
		if bad == "" {
			continue
		}
		min := in
		if st.min < 200 && len(in) <= 1<<16 {
			st.min++
			c := cfg
			min = minimize(in, func(b []byte) bool {
				bb, j, _ := w.c08Verdict(b, c, false)
				return j && bb != ""
			}, 1500)
		}
		w.Violation("C08/"+q(min), fmt.Sprintf("(%s) %s; input=%s (from %s %s)", cfg, bad, q(min), g, q(in)), cs)
	}
	if nontrivial {
		w.Nontrivial(gen.Hash64(in))
	}
	if w.WantSample() {
		w.Sample(map[string]interface{}{"gen": g, "input": q(in)})
	}
}

var c08Alphabet = []string{`{}`, `[1]`, `{"a":"b\n"}`, ``, `  `, `[1`, `1]`}

func runC08(w *W) {
	st := &c08State{}
	th := w.thorough()
	judge := func(g string, in []byte) { w.c08Judge(st, g, in) }
	// exhaustive: all sequences of <= 5 lines over the 7-line alphabet x {LF,CRLF} x {final newline, none}
	n := len(c08Alphabet)
	total := 0
	for l := 1; l <= 5; l++ {
		count := 1
		for i := 0; i < l; i++ {
			count *= n
		}
		for c := 0; c < count; c++ {
			idx := c
			var lines []string
			for i := 0; i < l; i++ {
				lines = append(lines, c08Alphabet[idx%n])
				idx /= n
			}
			for _, sep := range []string{"\n", "\r\n"} {
				for _, fin := range []bool{true, false} {
					s := strings.Join(lines, sep)
					if fin {
						s += sep
					}
					judge("enum", []byte(s))
					total++
				}
			}
		}
	}
	if w.Out.Shard == 0 {
		w.Exhaustive("sequences of <=5 lines over 7 line kinds x {LF,CRLF} x {final newline or not}", int64(total))
	}
	// pools
	r := w.rng("c08")
	valid := []string{`[false]`, `[true]`, `[null]`, `{"a":false}`, `[1,true]`, `{}`, `[]`, `{"a":1}`, `[1,2,3]`, `{"k":"v","n":[true,false,null]}`, `[{"x":{"y":[]}}]`, `{"s":"line\nbreak \"q\" \\ "}`, `["\\"]`, `["a\\"]`, `{"e":"\\\\"}`, `[1.5e3,-0,18446744073709551615]`, ` {"sp" : 1 } `, "\t[\t1\t]\t"}
	invalid := []string{`{`, `}`, `[1,]`, `{"a"}`, `{"a":1}{"b":2}`, `{"a":1} {"b":2}`, `[1] [2]`, `1`, `"s"`, `nul`, `[tru]`, `{"a":01}`, `["\x"]`, `[1`, `1]`, `{"a":`, `1}`, `[`, `]`, `,`, `{"a":1},`, `[1]x`, `x[1]`, `["a` + "\x01" + `"]`,
		// one outer scope left open although the line ends in a closer
		`[[1]`, `[{"a":1}`, `{"k":[1,2]`, `{"a":{"b":1}`, `[[]`, `{"a":[]`, `[1]]`, `{"a":1}}`,
		// atoms with a junk byte before the closer: the atom validators take another path within
		// the last bytes of the whole input than inside it, so the same line can fare
		// differently as the last line and as an inner one
		`[falsee]`, `[truee]`, `[nulll]`, `[false0]`, `[true1]`, `[null0]`, `{"a":falsee}`, `{"a":truex}`, `{"a":nullx}`, `[1,falsee]`, `[falsee,1]`, `[false"]`, `[fals]`, `[tru]`, `[nul]`, `[falsE]`}
	blanks := []string{``, ` `, "\t", "\r", "  \t ", " \r"}
	for k := 0; k < 40; k++ {
		rr := r.Split()
		valid = append(valid, string(gen.Doc(rr, gen.DocCfg{Size: []int{20, 100, 500}[k%3], MaxDepth: 3, MaxFan: 5, WS: k % 2, Esc: 40, NoLF: true, DupKeys: true})))
	}
	nSeq := 120000
	if th {
		nSeq = 1500000
	}
	for k := 0; k < nSeq; k++ {
		rr := r.Split()
		nl := rr.Range(1, 10)
		if rr.Chance(1, 30) {
			nl = rr.Range(10, 300)
		}
		badAt := -1
		if rr.Chance(1, 3) {
			badAt = []int{0, nl / 2, nl - 1}[rr.Intn(3)]
		}
		var b bytes.Buffer
		for l := 0; l < nl; l++ {
			switch {
			case l == badAt:
				b.WriteString(invalid[rr.Intn(len(invalid))])
			case rr.Chance(1, 5):
				b.WriteString(blanks[rr.Intn(len(blanks))])
			default:
				b.WriteString(valid[rr.Intn(len(valid))])
			}
			if l < nl-1 || rr.Bool() {
				if rr.Chance(1, 4) {
					b.WriteString("\r\n")
				} else {
					b.WriteByte('\n')
				}
			}
		}
		if rr.Chance(1, 6) {
			// leading blank run
			b2 := append([]byte(strings.Repeat("\n", rr.Range(1, 4))), b.Bytes()...)
			judge("seq", b2)
			continue
		}
		judge("seq", b.Bytes())
	}
	// root boundaries on every offset mod 64, around index-buffer ordinals and the 8 KiB threshold
	for off := 0; off < 130; off++ {
		pad := strings.Repeat("p", off)
		judge("boundary-offset", []byte(`{"a":"`+pad+`"}`+"\n"+`{"b":2}`+"\n"+`[3]`))
		judge("boundary-offset", []byte(`{"a":"`+pad+`"}`+"\r\n\n"+`{"b":2}`))
		judge("boundary-offset-bad", []byte(`{"a":"`+pad+`"}`+"\n"+`{"b":2} [3]`))
	}
	// a line break that is the only thing stage 1 has to report in its 64-byte block: long runs of
	// blanks (spaces, tabs, CR) on both sides of the LF, at every alignment; as a valid separator, as
	// white-space-only lines, and inside a document that spans the lines (must fail)
	for a := 0; a < 200; a += 1 + a/70*6 {
		for _, bn := range []int{0, 1, 63, 64, 65, 100, 130} {
			lead := strings.Repeat(" ", a)
			trail := strings.Repeat(" ", bn)
			tabs := strings.Repeat("\t", bn)
			judge("blank-padded-break", []byte(`{"a":1}`+lead+"\n"+trail+`{"b":2}`))
			judge("blank-padded-break", []byte(`{"a":1}`+lead+"\r\n"+tabs+`[2]`+"\n"))
			judge("blank-padded-break", []byte(`[1]`+lead+"\n"+trail+"\n"+tabs+"\r\n"+lead+`[2]`))
			judge("blank-padded-break-bad", []byte(`{"a":1,`+lead+"\n"+trail+`"b":2}`))
			judge("blank-padded-break-bad", []byte(`[4,`+lead+"\n"+tabs+`5]`+"\n[6]"))
		}
	}
	for _, base := range []int{1408, 2816} {
		for d := -6; d <= 6; d++ {
			// "[0]\n" contributes 4 structurals ('[' '0' ']' LF) per line
			lines := (base + d) / 4
			var b bytes.Buffer
			for l := 0; l < lines; l++ {
				b.WriteString("[0]\n")
			}
			for x := 0; x < (base+d)%4; x++ {
				b.WriteString("\n")
			}
			b.WriteString(`{"last":[1,2]}`)
			judge("boundary-ordinal", b.Bytes())
			judge("boundary-ordinal-bad", append(append([]byte{}, b.Bytes()...), []byte("\n[1,]")...))
		}
	}
	for d := -70; d <= 70; d += 1 {
		target := 8192 + d
		head := `{"a":1}` + "\n"
		tail := "\n" + `{"z":[true]}`
		judge("threshold-8k", []byte(head+`{"pad":"`+strings.Repeat("x", target-len(head)-len(tail)-10)+`"}`+tail))
	}
	// every kind of bad line at the first / middle / last position of inputs on both sides of 8 KiB
	for _, good := range []int{3, 300, 1200} {
		for bi, badLine := range invalid {
			for pos := 0; pos < 3; pos++ {
				if !th && (bi+pos+good)%2 != 0 && good != 1200 {
					continue
				}
				var b bytes.Buffer
				at := []int{0, good / 2, good}[pos]
				for l := 0; l <= good; l++ {
					if l == at {
						b.WriteString(badLine)
					} else {
						b.WriteString(valid[(l*7+bi)%18])
					}
					if l < good || (bi+pos)%2 == 0 {
						b.WriteString("\n")
					}
				}
				judge("bad-line-position", b.Bytes())
			}
		}
	}
	// long blank-line runs (every LF is an index entry in ND mode) before the last document, with the
	// final index buffer at every fill level
	for lead := 60; lead <= 130; lead += 2 {
		for blanks := 40; blanks <= 200; blanks += 9 {
			if !th && (lead+blanks)%3 != 0 {
				continue
			}
			var b bytes.Buffer
			for l := 0; l < lead; l++ {
				b.WriteString(valid[(l*5+blanks)%13])
				b.WriteByte('\n')
			}
			b.WriteString(strings.Repeat("\n", blanks))
			b.WriteString(`{"last":[1,2,3]}`)
			judge("blank-run-before-last", b.Bytes())
		}
	}
	for _, dense := range []int{1300, 1400, 1408, 1470, 1500, 1536, 1600, 2816, 3000} {
		for d := -2; d <= 2; d++ {
			judge("dense-newlines", []byte(`{"a":1}`+strings.Repeat("\n", dense+d)+`[2]`))
			judge("dense-newlines-lead", []byte(strings.Repeat("[0]\n", 200)+strings.Repeat("\n", dense+d)+`[2]`+"\n"))
		}
	}
	// many lines
	counts := []int{1000, 5000}
	if th {
		counts = append(counts, 20000, 50000)
	}
	for _, c := range counts {
		for v := 0; v < 3; v++ {
			rr := r.Split()
			var b bytes.Buffer
			for l := 0; l < c; l++ {
				b.WriteString(valid[rr.Intn(13)])
				if rr.Chance(1, 9) {
					b.WriteString("\n")
				}
				b.WriteString("\n")
			}
			if v == 1 {
				b.WriteString("[1,]\n")
			}
			if v == 2 {
				bb := b.Bytes()
				mid := bytes.IndexByte(bb[len(bb)/2:], '\n') + len(bb)/2
				b2 := append(append(append([]byte{}, bb[:mid+1]...), []byte("{\"a\":}\n")...), bb[mid+1:]...)
				judge("many-lines", b2)
				continue
			}
			judge("many-lines", b.Bytes())
		}
	}
	w.eachNDInput(1, judge)
	w.genDenseSizes(func(g string, in []byte) {
		if bytes.HasPrefix(in, []byte(`{"a":1}`+"\n")) {
			judge(g, in)
		}
	})
}

func replayC08(w *W, cs *ev.Case) {
	w.Out.NShards = 1
	w.c08Judge(&c08State{}, cs.Gen, cs.Input)
}
