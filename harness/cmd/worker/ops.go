package main

import (
	"bytes"
	"fmt"
	"math"
	"strings"

	simdjson "github.com/minio/simdjson-go"

	"verifharness/gen"
	"verifharness/ref"
	"verifharness/walk"
)

// setOp is one in-place replacement.
type setOp struct {
	Kind int // 0 null 1 bool 2 int 3 uint 4 float 5 string 6 stringbytes
	B    bool
	I    int64
	U    uint64
	F    float64
	S    []byte
}

var setNames = []string{"SetNull", "SetBool", "SetInt", "SetUInt", "SetFloat", "SetString", "SetStringBytes"}

func (o setOp) String() string {
	switch o.Kind {
	case 1:
		return fmt.Sprintf("SetBool(%v)", o.B)
	case 2:
		return fmt.Sprintf("SetInt(%d)", o.I)
	case 3:
		return fmt.Sprintf("SetUInt(%d)", o.U)
	case 4:
		return fmt.Sprintf("SetFloat(%v)", o.F)
	case 5, 6:
		s := o.S
		if len(s) > 24 {
			return fmt.Sprintf("%s(%q...%d)", setNames[o.Kind], s[:24], len(s))
		}
		if s == nil {
			return setNames[o.Kind] + "(nil)"
		}
		return fmt.Sprintf("%s(%q)", setNames[o.Kind], s)
	}
	return "SetNull()"
}

var intPool = []int64{0, 1, -1, 42, math.MinInt64, math.MaxInt64, 1 << 53, -(1 << 53), 1000000007}
var uintPool = []uint64{0, 1, math.MaxUint64, 1 << 63, 1<<63 - 1, 18446744073709551557}
var floatPool = []float64{0, math.Copysign(0, -1), 1.5, -2.25, 5e-324, math.MaxFloat64, -math.MaxFloat64, 1e21, 1e-7, 0.1, 123456789.125, 9007199254740993}
var strPool = []string{"", "x", "hello world", "with \"quotes\" and \\ backslash", "ctl\x01\x1f\n\t", "uni é 😀 ￿", "</script>&<>", "  ", strings.Repeat("long-", 200)}

func randSetOp(r *gen.Rand) setOp {
	o := setOp{Kind: r.Intn(7)}
	switch o.Kind {
	case 1:
		o.B = r.Bool()
	case 2:
		o.I = intPool[r.Intn(len(intPool))]
		if r.Chance(1, 3) {
			o.I = int64(r.Uint64())
		}
	case 3:
		o.U = uintPool[r.Intn(len(uintPool))]
		if r.Chance(1, 3) {
			o.U = r.Uint64()
		}
	case 4:
		o.F = floatPool[r.Intn(len(floatPool))]
		if r.Chance(1, 3) {
			for {
				o.F = math.Float64frombits(r.Uint64())
				if !math.IsNaN(o.F) && !math.IsInf(o.F, 0) {
					break
				}
			}
		}
	case 5, 6:
		s := strPool[r.Intn(len(strPool))]
		if r.Chance(1, 40) {
			s = strings.Repeat("M", 1<<20)
		}
		o.S = []byte(s)
		if o.Kind == 6 && r.Chance(1, 8) {
			o.S = nil
		}
	}
	return o
}

// allowed reports whether the documentation allows op on a value of kind k.
func (o setOp) allowed(k ref.Kind) bool {
	switch o.Kind {
	case 0:
		return true // Bool, String, numbers, Null, Object, Array
	case 1:
		return k == ref.True || k == ref.False || k == ref.Null
	default:
		return k == ref.Int || k == ref.Uint || k == ref.Float || k == ref.String
	}
}

// result returns the model value after the op.
func (o setOp) result() *ref.Value {
	switch o.Kind {
	case 1:
		if o.B {
			return &ref.Value{K: ref.True}
		}
		return &ref.Value{K: ref.False}
	case 2:
		return &ref.Value{K: ref.Int, I: o.I}
	case 3:
		return &ref.Value{K: ref.Uint, U: o.U}
	case 4:
		return &ref.Value{K: ref.Float, F: o.F}
	case 5, 6:
		return &ref.Value{K: ref.String, S: append([]byte{}, o.S...)}
	}
	return &ref.Value{K: ref.Null}
}

func (o setOp) apply(it *simdjson.Iter) error {
	switch o.Kind {
	case 1:
		return it.SetBool(o.B)
	case 2:
		return it.SetInt(o.I)
	case 3:
		return it.SetUInt(o.U)
	case 4:
		return it.SetFloat(o.F)
	case 5:
		return it.SetString(string(o.S))
	case 6:
		return it.SetStringBytes(o.S)
	}
	return it.SetNull()
}

// modelSet replaces the value at l.
func modelSet(roots []*ref.Value, l Loc, v *ref.Value) {
	if len(l.Path) == 0 {
		roots[l.Root] = v
		return
	}
	p, idx, _ := parentOf(l)
	c := modelAt(roots, p)
	if c.K == ref.Array {
		c.A[idx] = v
	} else {
		c.Vals[idx] = v
	}
}

type snapshot struct {
	tape []uint64
	strs []byte
}

func snap(pj *simdjson.ParsedJson) snapshot {
	s := snapshot{tape: append([]uint64{}, pj.Tape...)}
	if pj.Strings != nil {
		s.strs = append([]byte{}, pj.Strings.B...)
	}
	return s
}

func (s snapshot) same(pj *simdjson.ParsedJson) string {
	if len(pj.Tape) != len(s.tape) {
		return fmt.Sprintf("tape length %d -> %d", len(s.tape), len(pj.Tape))
	}
	for i := range s.tape {
		if pj.Tape[i] != s.tape[i] {
			return fmt.Sprintf("tape word %d changed %#x -> %#x", i, s.tape[i], pj.Tape[i])
		}
	}
	if pj.Strings != nil && (len(pj.Strings.B) < len(s.strs) || !bytes.Equal(pj.Strings.B[:len(s.strs)], s.strs)) {
		return "string buffer changed"
	}
	return ""
}

// doSet performs a replacement at l through the given route and updates the
// model. It returns a violation text if the call itself misbehaved.
func doSet(pj *simdjson.ParsedJson, roots []*ref.Value, l Loc, op setOp, route int) (bad string, applied bool) {
	cur := modelAt(roots, l)
	var it simdjson.Iter
	var lerr error
	var els *simdjson.Elements
	var elsParent Loc
	elsIdx := 0
	perr := walk.Guard(func() error {
		if route == routeElems {
			var ok bool
			els, elsIdx, elsParent, ok, lerr = locateElems(pj, roots, l)
			if ok {
				if lerr == nil {
					it = els.Elements[elsIdx].Iter
				}
				return nil
			}
			els = nil
		}
		it, lerr = locate(pj, roots, l, route)
		return nil
	})
	if perr != nil {
		return fmt.Sprintf("locating %v via %s panicked: %v", l, routeNames[route], perr), false
	}
	if lerr != nil {
		return fmt.Sprintf("locating %v via %s failed: %v", l, routeNames[route], lerr), false
	}
	if it.Type() != kindType(cur) {
		return fmt.Sprintf("iterator for %v via %s has type %v, model has %v", l, routeNames[route], it.Type(), cur.K), false
	}
	allowed := op.allowed(cur.K)
	var before snapshot
	if !allowed {
		before = snap(pj)
	}
	var err error
	perr = walk.Guard(func() error {
		if els != nil {
			// through the Element stored in the Elements (as Lookup(k).Iter.Set... does)
			err = op.apply(&els.Elements[elsIdx].Iter)
			it = els.Elements[elsIdx].Iter
			return nil
		}
		err = op.apply(&it)
		return nil
	})
	if perr != nil {
		return fmt.Sprintf("%s on %v panicked: %v", op, cur.K, perr), false
	}
	if allowed {
		if err != nil {
			return fmt.Sprintf("%s on a %v value returned %v although the documentation allows it", op, cur.K, err), false
		}
		modelSet(roots, l, op.result())
		// the iterator used for the edit must reflect the new value too
		if it.Type() != kindType(op.result()) {
			return fmt.Sprintf("after %s the editing iterator reports type %v", op, it.Type()), true
		}
		if d := readBack(&it, op.result()); d != "" {
			return fmt.Sprintf("after %s the editing iterator reads back something else: %s", op, d), true
		}
		// the Elements the edit went through must marshal the object as it is now
		if els != nil {
			var text []byte
			var merr error
			if p := walk.Guard(func() error { text, merr = els.MarshalJSON(); return nil }); p != nil {
				merr = p
			}
			if merr != nil {
				return fmt.Sprintf("after %s through an Element's iterator, MarshalJSON of the same Elements fails: %v", op, merr), true
			}
			v, _, perr := ref.ParseText(text)
			if perr != nil {
				return fmt.Sprintf("after %s through an Element's iterator, the same Elements marshal to invalid JSON: %v in %.120q", op, perr, text), true
			}
			if d := ref.DiffLoose(modelAt(roots, elsParent), v); d != "" {
				return fmt.Sprintf("after %s through an Element's iterator, the same Elements marshal another object: %s (text %.120q)", op, d, text), true
			}
		}
		// and through a freshly located iterator, including the cross-type numeric accessors
		if fresh, err := locateInto(pj, l); err == nil {
			if d := readBack(&fresh, op.result()); d != "" {
				return fmt.Sprintf("after %s a fresh iterator reads back something else: %s", op, d), true
			}
		}
		return "", true
	}
	if err == nil {
		return fmt.Sprintf("%s on a %v value returned no error although the documentation disallows it", op, cur.K), false
	}
	if d := before.same(pj); d != "" {
		return fmt.Sprintf("%s on a %v value returned an error but changed the document: %s", op, cur.K, d), false
	}
	// "changes nothing" includes the iterator the refused call went through: it still rests on the
	// same value and reads it like before (a caller that gets the error carries on with it)
	if it.Type() != kindType(cur) {
		return fmt.Sprintf("after the refused %s the iterator reports type %v, the value is still a %v", op, it.Type(), cur.K), false
	}
	var got *ref.Value
	var rerr error
	if p := walk.Guard(func() error { got, rerr = walk.AdvValue(it); return nil }); p != nil {
		rerr = p
	}
	if rerr != nil {
		return fmt.Sprintf("after the refused %s on a %v value the same iterator cannot read the value any more: %v", op, cur.K, rerr), false
	}
	if d := ref.Diff(cur, got); d != "" {
		return fmt.Sprintf("after the refused %s on a %v value the same iterator reads something else: %s", op, cur.K, d), false
	}
	return "", false
}

// readBack reads the value under it with the typed accessors and compares it with v.
func readBack(it *simdjson.Iter, v *ref.Value) string {
	var bad string
	perr := walk.Guard(func() error {
		switch v.K {
		case ref.Null:
			if it.Type() != simdjson.TypeNull {
				bad = fmt.Sprintf("type %v, want null", it.Type())
			}
		case ref.True, ref.False:
			b, err := it.Bool()
			if err != nil || b != (v.K == ref.True) {
				bad = fmt.Sprintf("Bool()=%v,%v", b, err)
			}
		case ref.Int:
			x, err := it.Int()
			if err != nil || x != v.I {
				bad = fmt.Sprintf("Int()=%d,%v want %d", x, err, v.I)
			}
		case ref.Uint:
			x, err := it.Uint()
			if err != nil || x != v.U {
				bad = fmt.Sprintf("Uint()=%d,%v want %d", x, err, v.U)
			}
		case ref.Float:
			x, fl, err := it.FloatFlags()
			if err != nil || math.Float64bits(x) != math.Float64bits(v.F) {
				bad = fmt.Sprintf("FloatFlags()=%v,%v want %v", x, err, v.F)
			} else if uint64(fl) != 0 {
				bad = fmt.Sprintf("FloatFlags() reports flags %#x on a value written by SetFloat", uint64(fl))
			}
		case ref.String:
			b, err := it.StringBytes()
			if err != nil || !bytes.Equal(b, v.S) {
				bad = fmt.Sprintf("StringBytes()=%.40q,%v", b, err)
			}
		}
		if bad == "" {
			bad = convCheck(it, v)
		}
		if bad == "" && (v.K != ref.Null) {
			if s, err := it.StringCvt(); err != nil {
				bad = fmt.Sprintf("StringCvt() fails: %v", err)
			} else if v.K == ref.String && s != string(v.S) {
				bad = "StringCvt() differs from the string"
			}
		}
		return nil
	})
	if perr != nil {
		return perr.Error()
	}
	return bad
}
