package main

import (
	"fmt"

	simdjson "github.com/minio/simdjson-go"

	"verifharness/ev"
	"verifharness/gen"
	"verifharness/ref"
	"verifharness/walk"
)

func init() { register("C02", runC02, replayC02) }

// walkAll runs every applicable walker on pj and returns the first
// difference from want ("" if none), naming the walker.
func walkAll(pj *simdjson.ParsedJson, want []*ref.Value, depth int, used *int) (walker, diff string) {
	cmp := func(name string, got []*ref.Value, err error) (string, string) {
		*used++
		if err != nil {
			return name, "error: " + err.Error()
		}
		if len(got) != len(want) {
			return name, fmt.Sprintf("%d roots, want %d", len(got), len(want))
		}
		for i := range want {
			if d := ref.Diff(want[i], got[i]); d != "" {
				return name, fmt.Sprintf("root %d: %s", i, d)
			}
		}
		return "", ""
	}
	got, err := walk.Into(pj)
	if n, d := cmp("AdvanceInto", got, err); d != "" {
		return n, d
	}
	got, err = walk.Adv(pj)
	if n, d := cmp("Advance/NextElementBytes", got, err); d != "" {
		return n, d
	}
	if depth <= 5000 {
		got, err = walk.IterCB(pj)
		if n, d := cmp("ForEach/AdvanceIter", got, err); d != "" {
			return n, d
		}
		got, err = walk.Elems(pj)
		if n, d := cmp("Object.Parse/Elements", got, err); d != "" {
			return n, d
		}
	}
	if depth <= 2000 {
		*used++
		x, err := walk.Iface(pj)
		if err != nil {
			return "Interface", "error: " + err.Error()
		}
		arr, ok := x.([]interface{})
		if !ok || len(arr) != len(want) {
			return "Interface", fmt.Sprintf("top-level Interface() gave %T with %d roots, want %d", x, len(arr), len(want))
		}
		for i := range want {
			if d := walk.CompareIface(want[i], arr[i]); d != "" {
				return "Interface", fmt.Sprintf("root %d: %s", i, d)
			}
		}
	}
	return "", ""
}

func (w *W) c02Judge(st *c01State, g string, doc []byte) {
	cs := &ev.Case{Gen: g, Input: doc}
	w.Journal(cs)
	if w.Skip() {
		return
	}
	a := ref.Analyze(doc)
	if a.Class != ref.MustAccept {
		w.Count("generator_produced_non_accept_class_skipped", 1)
		w.SetAdd("non_accept_generators", g+":"+a.Class.String())
		return
	}
	st.n++
	want := []*ref.Value{a.Value}
	depth := a.Info.MaxDepth
	w.Max("max_depth", int64(depth))
	w.Max("max_doc_bytes", int64(len(doc)))
	if len(doc) > 8192 {
		w.Count("docs_async_path", 1)
	}
	used := 0
	for ci, cfg := range w.configsAlt(st.n) {
		fresh := (st.n+ci)%64 == 0
		pj, err, pan := w.parseGuarded(doc, cfg, false, fresh)
		if pan != nil {
			w.Violation("C02/parse-panic/"+g, fmt.Sprintf("Parse panicked (%s): %v", cfg, pan), cs)
			continue
		}
		if err != nil {
			w.Count("valid_doc_rejected_by_parse_(C01)", 1)
			continue
		}
		used = 0
		walker, diff := walkAll(pj, want, depth, &used)
		w.Eval(used)
		if diff == "" {
			continue
		}
		min := doc
		if st.minimized < 200 && len(doc) <= 1<<16 {
			st.minimized++
			c := cfg
			min = minimize(doc, func(b []byte) bool {
				aa := ref.Analyze(b)
				if aa.Class != ref.MustAccept {
					return false
				}
				p, e, pn := w.parseMin(b, c, false)
				if pn != nil || e != nil {
					return false
				}
				u := 0
				wk, d := walkAll(p, []*ref.Value{aa.Value}, aa.Info.MaxDepth, &u)
				return d != "" && wk == walker
			}, 1500)
		}
		w.Violation("C02/"+walker+"/"+q(min), fmt.Sprintf("%s (%s) exposes a different document: %s; doc=%s (from %s)", walker, cfg, diff, q(min), q(doc)), cs)
	}
	if a.Info.Values >= 3 && used >= 2 {
		w.Nontrivial(gen.Hash64(doc))
	}
	w.SetAdd("generators", genClass(g))
	if w.WantSample() {
		w.Sample(map[string]interface{}{"gen": g, "doc": q(doc), "values": a.Info.Values, "depth": depth, "walkers": used})
	}
}

func genClass(g string) string {
	for i := 0; i < len(g); i++ {
		if g[i] == ':' {
			return g[:i]
		}
	}
	return g
}

func runC02(w *W) {
	st := &c01State{}
	scale := 4
	if w.thorough() {
		scale = 120
	}
	w.eachValidDoc(scale, func(g string, doc []byte) { w.c02Judge(st, g, doc) })
	// tokens slid across the end of the block in which an index buffer fills (invalid ones are skipped by the judge)
	w.genFillBlock(fillStep(w), func(g string, doc []byte) { w.c02Judge(st, g, doc) })
	w.genSpaceInDense([]int{1500, 9000}, func(g string, doc []byte) { w.c02Judge(st, g, doc) })
	w.genAlignedPartial(10, 180, 3, func(g string, doc []byte) { w.c02Judge(st, g, doc) })
}

func replayC02(w *W, cs *ev.Case) {
	w.c02Judge(&c01State{}, cs.Gen, cs.Input)
}
