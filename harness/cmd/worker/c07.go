package main

import (
	"bytes"
	"fmt"
	"runtime"
	"strings"

	simdjson "github.com/minio/simdjson-go"

	"verifharness/ev"
	"verifharness/gen"
	"verifharness/ref"
	"verifharness/sched"
	"verifharness/walk"
)

func init() { register("C07", runC07, replayC07) }

type c07Doc struct {
	name string
	data []byte
}

// c07Docs: valid and invalid documents above 8 KiB with chosen buffer counts.
func (w *W) c07Docs(th bool) []c07Doc {
	r := w.rng("c07docs")
	var out []c07Doc
	add := func(name string, d []byte) { out = append(out, c07Doc{name, d}) }
	// dense documents needing n buffers (1408 structurals per buffer)
	nbs := []int{1, 2, 15, 16, 17, 18, 33, 64}
	if th {
		nbs = append(nbs, 300, 1000)
	}
	for _, nb := range nbs {
		size := nb*1408*3/2 - 700
		if size < 8200 {
			size = 8200 + nb
		}
		add(fmt.Sprintf("dense-%dbuf", nb), gen.Aperiodic(r.Split(), size, 2))
		add(fmt.Sprintf("numbers-%dbuf", nb), gen.Aperiodic(r.Split(), nb*1408*9/2+8300, 0))
	}
	// string-heavy: few indexes, long stage-2 work per index
	add("strings-200k", gen.Aperiodic(r.Split(), 200<<10, 1))
	add("strings-2m", gen.Aperiodic(r.Split(), 2<<20, 1))
	add("structured-300k", gen.Doc(r.Split(), gen.DocCfg{Size: 300 << 10, MaxDepth: 6, MaxFan: 10, WS: 1, Esc: 20, LongStr: 10, DupKeys: true}))
	add("just-above-8k", []byte(`{"pad":"`+strings.Repeat("x", 8192)+`","a":[1,2,3]}`))
	if th {
		add("structured-4m", gen.Doc(r.Split(), gen.DocCfg{Size: 4 << 20, MaxDepth: 6, MaxFan: 20, WS: 2, Esc: 20, LongStr: 10, DupKeys: true}))
	}
	// invalid variants of two dense bases
	for _, nb := range []int{20, 120} {
		base := gen.Aperiodic(r.Split(), nb*1408*3/2, 2)
		inner := base[1 : len(base)-1]
		commas := topLevelCommas(inner)
		mid := commas[len(commas)/2]
		add(fmt.Sprintf("bad-first-token-%dbuf", nb), append(append([]byte("[tru,"), inner...), ']'))
		add(fmt.Sprintf("bad-middle-%dbuf", nb), append(append(append(append([]byte("["), inner[:mid+1]...), []byte("nul,")...), inner[mid+1:]...), ']'))
		add(fmt.Sprintf("bad-last-token-%dbuf", nb), append(append(append([]byte("["), inner...), []byte(",fals")...), ']'))
		add(fmt.Sprintf("stage1-only-control-char-%dbuf", nb), append(append(append([]byte("["), inner...), []byte(",\"ctl\x01\"")...), ']'))
		// the same stage-1-only failure early on: stage 1 knows after its first (or a middle) round
		// that the document is bad while dozens of buffers are still to be produced and handed over
		add(fmt.Sprintf("stage1-control-char-first-%dbuf", nb), append(append([]byte("[\"ctl\x01\","), inner...), ']'))
		add(fmt.Sprintf("stage1-control-char-middle-%dbuf", nb), append(append(append(append([]byte("["), inner[:mid+1]...), []byte("\"ctl\x02\",")...), inner[mid+1:]...), ']'))
		add(fmt.Sprintf("stage1-unterminated-%dbuf", nb), append(append([]byte("["), inner...), []byte(`,"open`)...))
		add(fmt.Sprintf("both-stages-%dbuf", nb), append(append(append([]byte("[tru,"), inner...), []byte(",\"ctl\x01\"")...), ']'))
		add(fmt.Sprintf("unclosed-scope-%dbuf", nb), append(append([]byte("[["), inner...), ']'))
		add(fmt.Sprintf("extra-closer-%dbuf", nb), append(append(append([]byte("["), inner...), ']'), ']'))
	}
	// NDJSON above 8 KiB
	var nd bytes.Buffer
	for nd.Len() < 60000 {
		nd.Write(gen.Doc(r.Split(), gen.DocCfg{Size: 50 + r.Intn(300), MaxDepth: 3, MaxFan: 5, Esc: 20, NoLF: true}))
		nd.WriteByte('\n')
	}
	add("ndjson-60k", nd.Bytes())
	add("ndjson-60k-bad-first-line", append([]byte("{\"a\":tru}\n"), nd.Bytes()...))
	return out
}

type c07Base struct {
	ok   bool
	tape []uint64
	strs []byte
}

func (w *W) c07Run(ring *sched.Ring, d c07Doc, nd bool, pol sched.Policy, procs int, avx512 bool, seed uint64, base *c07Base, cs *ev.Case) {
	runtime.GOMAXPROCS(procs)
	w.setKernel(avx512)
	// what the parser object did before this parse (the pipeline's ring, channel and flags live in
	// it): nothing / a small document on the one-goroutine path / a large valid one / a large one
	// that stage 2 rejected at its first token (struct-copy reuse keeps the state of the failed call)
	hist := int(seed % 4)
	var reuse *simdjson.ParsedJson
	var held simdjson.ParsedJson
	if hist != 0 {
		ring.Reset(sched.Natural, 0)
		w.JournalText("c07-history", d.name)
		walk.Guard(func() error {
			p0, e0 := simdjson.Parse([]byte(`{"warm":["up",1,2.5,null],"small":true}`), nil)
			if e0 != nil {
				return nil
			}
			reuse = p0
			switch hist {
			case 2:
				if p1, e1 := simdjson.Parse(c07WarmBig, p0); e1 == nil {
					reuse = p1
				}
			case 3:
				held = *p0
				simdjson.Parse(c07WarmBad, &held)
				reuse = &held
			}
			return nil
		})
		ring.Finish(true)
	}
	ring.Reset(pol, seed)
	cfg := fmt.Sprintf("policy=%s GOMAXPROCS=%d avx512=%v history=%d", pol, procs, avx512, hist)
	cs.Text = fmt.Sprintf("%s %s", d.name, strings.ReplaceAll(cfg, " ", ","))
	w.Journal(cs)
	if w.Skip() {
		return
	}
	var pj *simdjson.ParsedJson
	var err error
	perr := walk.Guard(func() error {
		if nd {
			pj, err = simdjson.ParseND(d.data, reuse)
		} else {
			pj, err = simdjson.Parse(d.data, reuse)
		}
		return nil
	})
	w.Eval(1)
	w.Count(fmt.Sprintf("parses_with_parser_history_%d", hist), 1)
	key := d.name + "/" + pol.String()
	if hist != 0 {
		key += "/reused-parser"
	}
	if perr != nil {
		w.Violation("C07/panic/"+key, fmt.Sprintf("parse panicked under %s: %v", cfg, perr), cs)
		return
	}
	sum := ring.Finish(err == nil)
	for _, v := range sum.Violations {
		w.Violation("C07/ring/"+firstWords(v, 3)+"/"+pol.String(), fmt.Sprintf("%s under %s on %s (%d bytes)", v, cfg, d.name, len(d.data)), cs)
	}
	if !sum.Async {
		w.Count("sync_path_parses_(not_the_subject)", 1)
		return
	}
	w.Count("async_parses", 1)
	w.Count("events", int(sum.Events))
	w.Count("buffers_handed_over", int(sum.Received))
	w.Count("stalls_applied", int(sum.Stalls))
	w.Count("stall_budget_exhausted", int(sum.Exhausted))
	w.Count("stripped_index_carries", int(sum.Strips))
	if sum.Stage2Exit {
		w.Count("stage2_early_exit_drains", 1)
	}
	w.Max("max_live_slots", int64(sum.MaxLive))
	w.Max("ring_slots", int64(sum.Slots))
	if sum.MinLive == 1 {
		w.Count("handoffs_with_one_live_slot_seen", 1)
	}
	if sum.MaxLive == sum.Slots {
		w.Count("parses_that_filled_the_ring", 1)
	}
	for l, n := range sum.LiveHist {
		w.Count(fmt.Sprintf("live_slots_hist_%02d", l), int(n))
	}
	w.SetAdd("schedule_signatures", fmt.Sprintf("%016x", sum.Signature))
	w.SetAdd("policies_x_procs", fmt.Sprintf("%s/%d", pol, procs))
	// outcome: what the content dictates, under every schedule
	if (err == nil) != base.ok {
		w.Violation("C07/outcome/"+key, fmt.Sprintf("under %s the call %s, the content dictates %s (%s)", cfg, okText(err == nil), okText(base.ok), d.name), cs)
		return
	}
	if err == nil {
		if len(pj.Tape) != len(base.tape) {
			w.Violation("C07/tape/"+key, fmt.Sprintf("under %s the tape has %d words, %d under the unforced schedule", cfg, len(pj.Tape), len(base.tape)), cs)
			return
		}
		for i := range base.tape {
			if pj.Tape[i] != base.tape[i] {
				w.Violation("C07/tape/"+key, fmt.Sprintf("under %s tape word %d is %#x, %#x under the unforced schedule", cfg, i, pj.Tape[i], base.tape[i]), cs)
				return
			}
		}
		if !bytes.Equal(pj.Strings.B, base.strs) {
			w.Violation("C07/strings/"+key, fmt.Sprintf("under %s the string buffer differs from the unforced schedule", cfg), cs)
			return
		}
	}
	if sum.Received >= 2 {
		w.Nontrivial(gen.Hash64([]byte(d.name), []byte(fmt.Sprintf("%x", sum.Signature))))
	}
	if w.WantSample() {
		w.Sample(map[string]interface{}{"doc": d.name, "bytes": len(d.data), "config": cfg, "buffers": sum.Received, "max_live": sum.MaxLive, "min_live": sum.MinLive, "drained": sum.Stage2Exit, "accepted": err == nil})
	}
}

// warm-up documents for parser histories: a valid dense document of ~40 index buffers and the same
// with a bad first token (stage 2 gives up at once while stage 1 has dozens of buffers to go)
var c07WarmBig = gen.Aperiodic(gen.New(7, "c07warm"), 40*1408*3/2, 2)
var c07WarmBad = append([]byte("[tru,"), c07WarmBig[1:]...)

func okText(ok bool) string {
	if ok {
		return "succeeds"
	}
	return "fails"
}

func firstWords(s string, n int) string {
	f := strings.Fields(s)
	if len(f) > n {
		f = f[:n]
	}
	return strings.Join(f, "_")
}

func runC07(w *W) {
	th := w.thorough()
	docs := w.c07Docs(th)
	ring := sched.NewRing()
	simdjson.VerifSetHook(ring.Hook)
	defer simdjson.VerifSetHook(nil)
	procs := []int{1, 2, 4, 16}
	reps := 1
	if th {
		reps = 6
	}
	if w.Out.Variant == "race" {
		procs = []int{2, 16}
	}
	idx := 0
	for di, d := range docs {
		nd := strings.HasPrefix(d.name, "ndjson")
		// what the content dictates: reference verdict and tree
		var want []*ref.Value
		okWant := true
		if nd {
			lines, _ := ref.SplitLines(d.data)
			for _, ln := range lines {
				a := ref.Analyze(ln)
				if a.Class != ref.MustAccept {
					okWant = false
					break
				}
				want = append(want, a.Value)
			}
		} else {
			a := ref.Analyze(d.data)
			if a.Class == ref.Either {
				continue
			}
			okWant = a.Class == ref.MustAccept
			want = []*ref.Value{a.Value}
		}
		// the unforced schedule gives the baseline tape (checked against the reference)
		base := &c07Base{ok: okWant}
		cs := &ev.Case{Gen: "c07", Input: d.data, A: int64(di)}
		if len(d.data) > 1<<20 {
			cs.Input = nil // regenerable from the seed; keep the journal small
		}
		runtime.GOMAXPROCS(4)
		w.setKernel(false)
		ring.Reset(sched.Natural, 0)
		w.JournalText("c07-baseline", d.name)
		var pj *simdjson.ParsedJson
		var err error
		if nd {
			pj, err = simdjson.ParseND(d.data, nil)
		} else {
			pj, err = simdjson.Parse(d.data, nil)
		}
		ring.Finish(err == nil)
		if (err == nil) != okWant {
			w.Count("baseline_outcome_differs_from_reference_(C01)", 1)
			continue
		}
		if err == nil {
			got, werr := walk.Into(pj)
			if d := cmpRoots(want, got, werr, false); d != "" {
				w.Count("baseline_document_differs_from_reference_(C02)", 1)
				continue
			}
			base.tape = append([]uint64{}, pj.Tape...)
			base.strs = append([]byte{}, pj.Strings.B...)
		}
		for rep := 0; rep < reps; rep++ {
			for pol := 0; pol < sched.NPolicies; pol++ {
				for _, p := range procs {
					for _, avx := range []bool{false, true} {
						if avx && !w.hasAVX512 {
							continue
						}
						idx++
						if !w.mine(idx) {
							continue
						}
						w.c07Run(ring, d, nd, sched.Policy(pol), p, avx, w.Out.Seed*1000+uint64(idx), base, cs)
					}
				}
			}
		}
	}
	// index buffers filled to the brim: [1,1,...] with one space, swept over total length and the
	// partly indexed blocks near the end (a round may end with 1408+63 entries, the tail adds up to 64)
	k := 0
	type apar struct{ j, a, b, t int }
	var fam []apar
	for j := 130; j <= 180; j += 2 {
		for _, a := range []int{0, 2, 62, 64} {
			for _, b := range []int{0, 62, 64} {
				for _, t := range []int{0, 2, 62, 64} {
					fam = append(fam, apar{j, a, b, t})
				}
			}
		}
	}
	for _, f := range fam {
		{
			k++
			if !w.mine(k) {
				continue
			}
			d := c07Doc{name: fmt.Sprintf("aligned-partial-j%d-a%d-b%d-t%d", f.j, f.a, f.b, f.t), data: alignedPartial(f.j, f.a, f.b, f.t)}
			a := ref.Analyze(d.data)
			if a.Class != ref.MustAccept {
				continue
			}
			runtime.GOMAXPROCS(4)
			w.setKernel(false)
			ring.Reset(sched.Natural, 0)
			w.JournalText("c07-baseline", d.name)
			pj, err := simdjson.Parse(d.data, nil)
			ring.Finish(err == nil)
			if err != nil {
				w.Count("baseline_outcome_differs_from_reference_(C01)", 1)
				continue
			}
			base := &c07Base{ok: true, tape: append([]uint64{}, pj.Tape...), strs: append([]byte{}, pj.Strings.B...)}
			cs := &ev.Case{Gen: "c07", Input: d.data}
			for _, pol := range []sched.Policy{sched.Natural, sched.ConsumerLag} {
				idx++
				w.c07Run(ring, d, false, pol, 2, idx%2 == 0, w.Out.Seed*1000+uint64(idx), base, cs)
			}
		}
	}
	runtime.GOMAXPROCS(2)
	if rs, _, _ := simdjson.VerifRingInfo(); rs > 0 {
		w.Max("ring_slots", int64(rs))
	}
}

func replayC07(w *W, cs *ev.Case) {
	fmt.Println("C07 cases are (document, policy, GOMAXPROCS, kernel) tuples named in the case text; re-run ./check C07 with the same seed to reproduce:", cs.Text)
}
