package main

import (
	"fmt"
	"time"
)

type job struct {
	variant            string // plain | race | noasm
	mode               string
	shards             int
	gomaxprocs         int // per worker; default 2
	weight             int // scheduling weight in cores; default 1
	gogc               string
	memlimit           string
	env                []string
	quickTimeout       time.Duration
	thoroughTimeout    time.Duration
	maxResume          int
	resumeAfterTimeout bool
	memcapMB           int // resource-bound monitor in the worker (exit status 7)
	cpuBudgetS         int // processor-time bound on one journaled case, enforced by the controller (0: none)
	stage              int // jobs of stage n+1 start after all jobs of stage n ended
}

func (j *job) timeout(tier string) time.Duration {
	if tier == "thorough" {
		if j.thoroughTimeout > 0 {
			return j.thoroughTimeout
		}
		return 3 * time.Hour
	}
	if j.quickTimeout > 0 {
		return j.quickTimeout
	}
	return 25 * time.Minute
}

type plan struct {
	rule        string
	assumptions []string
	jobs        func(tier string) []*job
	// require returns unmet observation minima (each makes the run inconclusive).
	require func(tier string, counters, maxima map[string]int64, sets map[string]map[string]struct{}) []string
}

func noRequire(string, map[string]int64, map[string]int64, map[string]map[string]struct{}) []string {
	return nil
}

func need(counters map[string]int64, name string, min int64) []string {
	if counters[name] < min {
		return []string{fmt.Sprintf("%s=%d < %d", name, counters[name], min)}
	}
	return nil
}

var commonAssumptions = []string{
	"the reference model in harness/ref (RFC 8259 recogniser, unescaper, math/big number rounding) is correct; it is cross-checked against encoding/json and strconv on every case where they apply",
	"the CPU of this machine: AVX2 behaviour is obtained by clearing the AVX512F bit in the cpuid feature set, not by running on an AVX2-only CPU",
	"exploration only: the property held on the executions listed, nothing is claimed about inputs, schedules or histories that were not generated",
}

var plans = map[string]*plan{}

func simple(rule string, variant string, shards int) *plan {
	return &plan{
		rule:        rule,
		assumptions: commonAssumptions,
		jobs: func(tier string) []*job {
			return []*job{{variant: variant, mode: "main", shards: shards, maxResume: 5}}
		},
		require: noRequire,
	}
}

func std(rule string, shards int, req func(c, m map[string]int64) []string, extra ...string) *plan {
	return &plan{
		rule:        rule,
		assumptions: append(append([]string{}, extra...), commonAssumptions...),
		jobs: func(tier string) []*job {
			return []*job{{variant: "plain", mode: "main", shards: shards, maxResume: 5}}
		},
		require: func(tier string, c, m map[string]int64, s map[string]map[string]struct{}) []string {
			if req == nil {
				return nil
			}
			return req(c, m)
		},
	}
}

func init() {
	plans["C06"] = std("every input is parsed by Parse and ParseND, copy and no-copy, once with AVX512F cleared in the cpuid feature set (AVX2 kernels) and once with it set (AVX-512 kernels); outcomes, Tape words and Strings.B bytes are compared. Inputs: token-sequence enumeration (<=4), number/atom/string byte tables, alignment carriers, tail sweeps (every length with interesting bytes in the last 64 positions), carry sweeps (quotes, backslash runs, pseudo-structural predecessors straddling block boundaries), valid documents, NDJSON, corpus mutants, random bytes. Distinct non-trivial = inputs on which at least one call got past stage 1 on both kernels (accepted), by content hash", 16,
		func(c, m map[string]int64) []string {
			return append(need(c, "both_accepted", 5000), need(c, "both_rejected", 100000)...)
		})
	plans["C08"] = std("NDJSON inputs: exhaustive sequences of <=5 lines over {valid object, valid array, object with escaped LF, empty, blanks, two halves of a split document} x {LF,CRLF} x {final newline or not}; random sequences of valid/invalid/blank lines with one bad line at first/middle/last position, leading/trailing blank runs, mixed CRLF; root boundaries at every offset mod 64, at index-buffer ordinals 1408k+-6 and total sizes 8192+-70; thousands of lines. Oracle: Parse on each non-blank line (acceptance) and the reference tree of each line (roots, in order), read back through AdvanceInto and ParsedJson.ForEach; avx2/avx512 x copy/no-copy. Distinct non-trivial = inputs with >= 2 lines of which >= 1 non-blank, by content hash", 16,
		func(c, m map[string]int64) []string {
			out := need(c, "inputs_async_path", 100)
			if m["max_documents_per_input"] < 1000 {
				out = append(out, "max_documents_per_input < 1000")
			}
			return out
		})
	plans["C18"] = std("finite float64 values placed with SetFloat into a parsed 512-element template and rendered by Iter.MarshalJSON and Iter.StringCvt; compared byte for byte with encoding/json.Marshal, and independently: strconv.ParseFloat(text) gives the identical bits, the number of significant digits equals that of strconv.FormatFloat(f,'e',-1,64), exponent form exactly outside [1e-6,1e21). Inputs: fixed hard cases, 10^k for k=-323..308 with both neighbours, the 1e-6/1e21 switches +-3 ulps, every binade (min, max, +-1, random), all 52 subnormal leading-bit positions, integers up to 2^63 scaled by powers of ten, 15-17 digit decimals, uniformly random bit patterns; NaN/+-Inf must give an error. Distinct non-trivial = distinct finite bit patterns", 16,
		func(c, m map[string]int64) []string { return need(c, "non_finite_rejected", 3) })
	plans["C11"] = &plan{
		rule:        "seeded programs over two Serializers (the same object in every third program) and a pool of destinations: CompressMode switches between every pair of calls (all 4x4 encoder/decoder mode pairs; Fast first in half of them), Serialize with and without a dst prefix, a truncated blob deserialized in between, destinations reused after larger and smaller documents. Source tapes: parsed, ND-parsed, edited and with deleted members, copy and no-copy; no strings, one string, > 16384 distinct equal-length strings, 30000 duplicate strings, tag and value counts at the 64 Ki flush boundaries +-2, 70000/131072-byte strings, floats with the overflow flag, corpus files. Every deserialized tape is read with AdvanceInto and compared (types and float flags included) with the model; blobs plus canonical typed dumps are handed to a worker built with -tags noasm which must expose identical documents; a slice runs under the race detector. Distinct non-trivial = programs whose documents hold >= 1 string and >= 1 number (by program seed) and blobs verified in the noasm build (by content)",
		assumptions: commonAssumptions,
		jobs: func(tier string) []*job {
			return []*job{
				{variant: "plain", mode: "main", shards: 12, maxResume: 3, cpuBudgetS: 300},
				{variant: "plain", mode: "emit", shards: 4, maxResume: 0, cpuBudgetS: 300},
				{variant: "noasm", mode: "consume", shards: 4, maxResume: 3, stage: 1},
				{variant: "race", mode: "main", shards: 4, maxResume: 0, gomaxprocs: 4, cpuBudgetS: 1500},
			}
		},
		require: func(tier string, c, m map[string]int64, s map[string]map[string]struct{}) []string {
			var out []string
			for e := 0; e < 4; e++ {
				for d := 0; d < 4; d++ {
					out = append(out, need(c, fmt.Sprintf("pair_enc%d_dec%d", e, d), 20)...)
				}
			}
			out = append(out, need(c, "blobs_verified_in_noasm_build", 200)...)
			out = append(out, need(c, "source_tapes_with_deletions", 50)...)
			out = append(out, need(c, "source_tapes_with_a_deleted_run_at_the_64Ki_tag_boundary", 20)...)
			return out
		},
	}
	plans["C19"] = &plan{
		rule:        "blobs of all four compression modes from tiny, small, edited (NOP runs), NDJSON and medium documents, mutated by: every truncation, single-bit flips, byte substitution with {0,1,0x7f,0x80,0xff, tag letters}, splices between blobs, random bytes, and framing-preserving structural mutation (the harness parses the container, decompresses each block with the same s2/zstd modules, swaps/deletes/duplicates plain tag bytes, overwrites value words with 0, -1, tape size +-1, 2^56, 2^63..., changes declared sizes, cuts sections, changes block types and version, recompresses and repairs the outer lengths). Each blob is deserialized into a nil destination and into a destination that held a larger document; a panic (recovered or on a library goroutine), a fault, a deadlock or live heap above 1 GiB is a violation; every returned result is swept by all readers under the same rules. Blobs declaring a section above 2 MiB are skipped (allocation carve-out). Distinct non-trivial = mutated blobs that reached the tape-rebuild loop or returned a result, by content hash",
		assumptions: append([]string{"the harness's own container parser/re-framer is checked at start: re-framed unmutated blobs must deserialize"}, commonAssumptions...),
		jobs: func(tier string) []*job {
			return []*job{
				{variant: "plain", mode: "main", shards: 16, maxResume: 40, memcapMB: 1024, cpuBudgetS: 60},
			}
		},
		require: func(tier string, c, m map[string]int64, s map[string]map[string]struct{}) []string {
			out := need(c, "reached_tape_rebuild", 5000)
			return append(out, need(c, "returned_result", 1000)...)
		},
	}
	plans["C15"] = &plan{
		rule:        "seeded programs of 3..20 calls over two reusable objects: Parse/ParseND with the reuse argument passed as the pointer last returned, as a struct copy (keeps the internal ring/channel across failed calls) or nil; inputs valid / failing in stage 1 / failing in stage 2 at the start, middle or end, sizes 40 B..400 KB on both sides of 8 KiB including 100x jumps, copy and no-copy, both kernels; in-place edits between calls; Serialize/Deserialize with one Serializer across mode changes and a reused destination; plus histories of one Serializer over documents on both sides of its 64 Ki buffers. Oracle for every call: the same call on fresh objects (same error-ness, equal documents, equal marshalled bytes); after a copy-mode call the input is overwritten and the document must not change; the index channel of the reused object must be empty after every call. A slice runs under the race detector. Distinct non-trivial = programs with >= 2 calls of which >= 1 failed or was above 8 KiB, by program seed",
		assumptions: commonAssumptions,
		jobs: func(tier string) []*job {
			return []*job{
				{variant: "plain", mode: "main", shards: 16, maxResume: 3},
				{variant: "race", mode: "main", shards: 4, maxResume: 0, gomaxprocs: 4},
			}
		},
		require: func(tier string, c, m map[string]int64, s map[string]map[string]struct{}) []string {
			out := need(c, "failed_calls_in_histories", 5000)
			out = append(out, need(c, "calls_above_8KiB", 5000)...)
			out = append(out, need(c, "serializer_size_histories", 100)...)
			return out
		},
	}
	plans["C16"] = &plan{
		rule:        "documents (generated, NDJSON, corpus) parsed in copy mode through Parse/ParseND with default options, explicit WithCopyStrings(true), and on an object used in no-copy mode before; every reader (two traversal routes, MarshalJSON, serialize round trip) is recorded, the input buffer is overwritten (zeros, 0xFF, quotes/backslashes, another valid document, random bytes, shifted by one) and every reader is run again. No-copy mode must expose the same document while the input is intact (strings aliasing the input are counted). Clone (nil and reused destination; of copy and of no-copy tapes): seeded Set* edits on the original must not show in the clone, edits on the clone (first one appends a string) must not show in the original and must be reflected by the clone, and the clone must survive overwriting the source's input. ParseNDStream: the chunk buffer of delivered values is overwritten, values are held, recycled through the reuse channel or re-read at once, and held values are re-read after the stream ended. Distinct non-trivial = documents with >= 1 string, by (document, overwrite pattern) hash, and streams with >= 2 chunks",
		assumptions: commonAssumptions,
		jobs: func(tier string) []*job {
			return []*job{
				{variant: "plain", mode: "main", shards: 16, maxResume: 3, gomaxprocs: 4, memlimit: "3GiB"},
			}
		},
		require: func(tier string, c, m map[string]int64, s map[string]map[string]struct{}) []string {
			out := need(c, "clone_rounds", 2000)
			out = append(out, need(c, "strings_aliasing_input_in_no_copy_mode", 5000)...)
			out = append(out, need(c, "stream_chunks", 5000)...)
			return out
		},
	}
	plans["C07"] = &plan{
		rule:        "documents above 8 KiB (dense/number/string-heavy arrays needing 1,2,15,16,17,18,33,64 (thorough: 300, 1000) index buffers, structured documents, NDJSON; invalid ones failing at the first token, in the middle, at the end, only in stage 1, in both stages, with an unclosed scope or an extra closer) parsed under each schedule policy (natural, consumer-lag: stage 2 held after every receive until the channel is full and stage 1 is at its next send; producer-lag: stage 1 held at every slot acquisition until stage 2 has released everything and waits; alternate; random yields) x GOMAXPROCS 1,2,4,16 x both kernels, in the plain and the race build. The hook events feed a shadow-ownership monitor (a slot may not be acquired while an older buffer in it is unreleased), a content monitor (buffer at release == snapshot at send), a history checker (buffers received exactly once in order with the sent length, terminator on every path, channel empty after return) and an outcome oracle (error-ness = reference verdict; tape and string buffer word-identical to the unforced schedule, whose document equals the reference tree). A deadlock ends the worker through the Go runtime's detector (plain build) or the watchdog + goroutine dump (race build). Distinct non-trivial = async parses with >= 2 buffers, by (document, schedule signature)",
		assumptions: append([]string{"interleavings are forced at the hook points only; preemption between hooks is left to the Go scheduler and the GOMAXPROCS variation"}, commonAssumptions...),
		jobs: func(tier string) []*job {
			return []*job{
				{variant: "plain", mode: "main", shards: 8, maxResume: 3, gomaxprocs: 16, weight: 2},
				{variant: "race", mode: "main", shards: 4, maxResume: 0, gomaxprocs: 16, weight: 2, quickTimeout: 6 * time.Minute, thoroughTimeout: 40 * time.Minute, stage: 1},
			}
		},
		require: func(tier string, c, m map[string]int64, s map[string]map[string]struct{}) []string {
			var out []string
			if m["max_live_slots"] != m["ring_slots"] || m["ring_slots"] == 0 {
				out = append(out, fmt.Sprintf("the ring was never observed full (max live %d of %d slots)", m["max_live_slots"], m["ring_slots"]))
			}
			out = append(out, need(c, "handoffs_with_one_live_slot_seen", 50)...)
			out = append(out, need(c, "stage2_early_exit_drains", 50)...)
			out = append(out, need(c, "parses_that_filled_the_ring", 50)...)
			out = append(out, need(c, "async_parses", 500)...)
			// a stall that runs out of its yield budget (a loaded machine) leaves that one hand-over
			// to the natural schedule; the run is still judged. Only when that is common were the
			// forced schedules not explored
			if c["stall_budget_exhausted"]*100 > c["stalls_applied"] {
				out = append(out, fmt.Sprintf("stall budget exhausted %d times in %d stalls: forced schedules were not reached", c["stall_budget_exhausted"], c["stalls_applied"]))
			}
			if len(s["schedule_signatures"]) < 100 {
				out = append(out, fmt.Sprintf("only %d distinct schedule signatures", len(s["schedule_signatures"])))
			}
			return out
		},
	}
	plans["C05"] = &plan{
		rule:        "hostile inputs: random bytes of three alphabets (0..64 KiB), exhaustive token sequences (<=4), boundary pairs, atom and string byte tables, every truncation of small valid documents, corpus mutants, maximal structural density ([[[[, [],[], {\"\":0, ]]]] ...) at lengths 64/128/448/512/1408/1536/2816/8192+-3, 8192+-70, 16x and 17x1408, 100x and 160x1408, early stage-2 failure with 2/20/120 buffers still to come, stage-1-only failures, buffers filling exactly at a carried quote/atom with nothing structural after it, nesting to depth 2000 (full reader sweep) and 10^4/10^5/2^20 (iterative readers and Interface, one case per process life). Every input runs through Parse and ParseND under avx2/avx512 x copy/no-copy, reused and fresh, placed in an end-aligned guard-page mapping (every 4th also start-aligned); the copy-mode string buffer is guard-terminated with its capacity swept +-40 around the in-place/reallocate decision. Monitors: recover() around every call and reader, error-xor-result, library goroutines left blocked after return, index channel drained, worker death classified (fault, stack overflow, checkptr, runtime deadlock, watchdog + goroutine dump); the >8 KiB subset again under the race detector. Distinct non-trivial = inputs of >= 2 bytes holding at least one byte stage 1 must index, by content hash",
		assumptions: append([]string{"'bounded time' is decided as absence of deadlock plus termination of every call within the watchdog; slow-but-running calls are reported as inconclusive, never as violations"}, commonAssumptions...),
		jobs: func(tier string) []*job {
			return []*job{
				{variant: "plain", mode: "main", shards: 14, maxResume: 8, cpuBudgetS: 300},
				{variant: "plain", mode: "deep", shards: 2, maxResume: 12, gogc: "100", quickTimeout: 20 * time.Minute, thoroughTimeout: 90 * time.Minute},
				{variant: "race", mode: "main", shards: 2, maxResume: 0, gomaxprocs: 8, weight: 2, quickTimeout: 8 * time.Minute, stage: 1},
			}
		},
		require: func(tier string, c, m map[string]int64, s map[string]map[string]struct{}) []string {
			out := need(c, "calls_input_end_aligned_to_guard_page", 100000)
			out = append(out, need(c, "calls_input_start_aligned_to_guard_page", 10000)...)
			out = append(out, need(c, "calls_string_buffer_end_aligned_to_guard_page", 500)...)
			out = append(out, need(c, "inputs_async_path", 300)...)
			out = append(out, need(c, "deep_cases", 6)...)
			return out
		},
	}
	plans["C09"] = &plan{
		rule:        "NDJSON streams (2 documents .. 2000 lines quick / 20000 lines, > 20 MiB and a line > 10 MiB thorough; blank and white-space-only lines anywhere incl. leading/trailing runs, CRLF, missing final newline, lines from 10 B to 12 KB) served by a reader under test control: 1-byte, 1..7-byte, power-of-two, up-to/just-past/just-before line end, all-at-once and random <= 64 KiB fragments, (n,EOF) together or (0,EOF) separately, and an injected reader error at every byte offset (short streams) or ~120 sampled offsets; x chunk completion policy (natural, reverse: hook holds chunk i until up to 3 later chunks are parsed, random delay) x GOMAXPROCS 1,2,4,16 x result channel unbuffered/buffered x reuse channel none / recycle all / every other / full and never drained x slow/fast consumer. The recorded element sequence is judged offline: documents delivered = the stream's documents in order (a prefix when the reader failed), exactly one error element, io.EOF resp. the reader's own error (errors.Is), nothing after it, no element with both or neither field, channel closed; a stream that never closes ends the worker through the runtime deadlock detector. Plain and race builds. Distinct non-trivial = (stream, configuration) runs with >= 2 chunks",
		assumptions: commonAssumptions,
		jobs: func(tier string) []*job {
			return []*job{
				{variant: "plain", mode: "main", shards: 16, maxResume: 4, gomaxprocs: 16, weight: 1, memlimit: "3GiB", quickTimeout: 10 * time.Minute},
				{variant: "race", mode: "main", shards: 4, maxResume: 0, gomaxprocs: 16, weight: 2, memlimit: "4GiB", quickTimeout: 8 * time.Minute, stage: 1},
			}
		},
		require: func(tier string, c, m map[string]int64, s map[string]map[string]struct{}) []string {
			out := need(c, "streams", 1000)
			out = append(out, need(c, "out_of_order_completions_observed", 100)...)
			out = append(out, need(c, "streams_with_injected_reader_error", 300)...)
			if len(s["fragmentations"]) < 12 {
				out = append(out, "fewer than 12 fragmentation x EOF styles exercised")
			}
			if c["chunk_hold_budget_exhausted"] > c["chunk_holds"]/4 {
				out = append(out, "more than a quarter of the forced chunk holds ran out of budget")
			}
			return out
		},
	}
	plans["C20"] = &plan{
		rule:        "rounds of N in {2,16,64} goroutines x GOMAXPROCS {2,16}: every goroutine runs its own seeded program on its own objects (Parse with and without reuse of its own object, copy and no-copy, valid and mutated documents on both sides of 8 KiB; ParseND; ParseNDStream with a fragmenting reader and a reuse channel; two traversal routes; Clone + Set* edits; Serialize/Deserialize in a random compression mode with a reused destination), all released together behind a barrier. Oracle 1 (race build): the Go race detector reports nothing. Oracle 2 (plain and race builds): the hash-chained transcript of every goroutine (error-ness, marshalled bytes, typed dumps of traversals, stream contents, round-tripped documents) equals the transcript of the same program run alone beforehand. Cold start: 448 fresh processes (400 plain, 48 race) in which the very first use of a Serializer happens in 4xGOMAXPROCS goroutines at once, each deserializing a zstd-compressed blob written by an earlier process and comparing the document. Programs also deserialize a damaged copy of their own blob now and then (failed decodes must not poison pooled readers). The number of goroutines inside library calls at the same time and the number of overlapping pool-using (compressing) operations are counted. Distinct non-trivial = rounds (programs with >= 2 goroutines inside the library simultaneously are counted in the evidence), by round parameters",
		assumptions: append([]string{"the race detector only sees Go code: accesses made by the assembly kernels are invisible to it (they touch per-object buffers only)"}, commonAssumptions...),
		jobs: func(tier string) []*job {
			return []*job{
				{variant: "plain", mode: "emit", shards: 1, maxResume: 0},
				// the plain build first: a goroutine that never comes back ends a plain worker at once
				// through the Go runtime's deadlock report, where a race worker sits until its watchdog
				{variant: "plain", mode: "main", shards: 8, maxResume: 0, gomaxprocs: 16, weight: 2, memlimit: "3GiB", stage: 1},
				// one cold-start trial per process life: many short processes
				{variant: "plain", mode: "coldstart", shards: 400, maxResume: 0, gomaxprocs: 16, weight: 2, stage: 1},
				{variant: "race", mode: "main", shards: 8, maxResume: 0, gomaxprocs: 16, weight: 4, memlimit: "3GiB", quickTimeout: 15 * time.Minute, stage: 2},
				{variant: "race", mode: "coldstart", shards: 48, maxResume: 0, gomaxprocs: 16, weight: 2, stage: 2},
			}
		},
		require: func(tier string, c, m map[string]int64, s map[string]map[string]struct{}) []string {
			var out []string
			if m["max_goroutines_inside_library_calls_at_once"] < 16 {
				out = append(out, fmt.Sprintf("at most %d goroutines were inside the library at once", m["max_goroutines_inside_library_calls_at_once"]))
			}
			out = append(out, need(c, "pool_using_operations_that_overlapped", 100)...)
			out = append(out, need(c, "programs", 500)...)
			out = append(out, need(c, "cold_start_trials", 40)...)
			return out
		},
	}
	plans["C10"] = std("documents (strings holding every byte value and every pair of escape-needing bytes, every number kind, the C02 document workload, NDJSON) fresh and after seeded histories of in-place replacements and deletions; marshalled from the root iterator (MarshalJSON and MarshalJSONBuffer with a prefix), from single-value-scoped inner iterators (AdvanceIter / NextElementBytes / FindKey), Array.MarshalJSON and Elements.MarshalJSON. Each output must be valid JSON per the reference recogniser (valid UTF-8, well-formed surrogates, roots separated by LF), denote the model document (strings byte-equal, member order, numbers numerically equal) and be a fixed point of parse+marshal; a non-finite float placed with SetFloat must make every marshaller return an error. Distinct non-trivial = marshalled tapes whose text holds a container or an escape, by (document, edit history) hash", 16,
		func(c, m map[string]int64) []string {
			out := need(c, "edited_tapes", 1000)
			out = append(out, need(c, "inner_iterators_marshalled", 5000)...)
			return append(out, need(c, "non_finite_rejected", 1000)...)
		})
	plans["C12"] = std("per document: for every object (<=25 per document) FindKey for each present key (first member wins, duplicates, empty and equal-length siblings) and absent keys, FindPath for every key path below it plus absent and through-non-object continuations, ForEach with nil/empty filter and with every subset of keys (objects with <= 6 unique keys; sampled subsets above), Map and Parse/Lookup; for every array AsFloat/AsInteger/AsUint64/AsString/AsStringCvt/Interface/FirstType on a fresh Array against element-wise conversion by the math/big oracle; Iter.Int/Uint/Float on every number; FindElement from fresh and root iterators. Documents: 2^63/2^64/2^53 +-3 in int, .0, .5 and e0 spellings, homogeneous and mixed arrays, structured documents with unique and duplicate keys, corpus files. Distinct non-trivial = objects with >= 2 members looked up, by (document, position) hash", 16,
		func(c, m map[string]int64) []string { return need(c, "foreach_filter_all_subsets_objects", 1000) })
	plans["C13"] = std("seeded histories of 1..12 (quick) / 1..40 (thorough) Set* calls at random value positions (scalars at any depth, containers mostly SetNull), the iterator obtained through one of four routes (AdvanceInto scan, Advance/NextElementBytes, AdvanceIter/ForEach, FindKey); arguments from pools with extremes (MinInt64, MaxUint64, +-0, subnormal, empty/nil/1 MiB strings, strings needing escapes). A model tree is updated when the documentation allows the call; otherwise an error is required and Tape/Strings.B must be bit-identical. After every operation all readers (AdvanceInto, Advance, ForEach/AdvanceIter, Elements, Interface/Map, Iter/Array/Elements.MarshalJSON, FindKey/FindPath, PeekNext, and every 4th step a serialize round trip) must equal the model and the tape checker must pass. Distinct non-trivial = histories with >= 1 effective edit, by (document, history seed) hash", 16,
		func(c, m map[string]int64) []string {
			out := need(c, "effective_edits", 5000)
			return append(out, need(c, "disallowed_calls_checked", 2000)...)
		})
	plans["C14"] = std("(a) enumeration: for every container with <= 6 members (<= 6 containers per document) every subset of members is deleted on a fresh clone, with fn only, onlyKeys only, fn+onlyKeys (unique-key objects) and SetNull on the container; (b) seeded histories of up to 4 steps mixing deletions (first/last/all/adjacent run/random subsets, nested containers) and replacements. A callback monitor checks that DeleteElems visits each (filtered) member once, in order, with its own key, type and scalar value; after every step every reader (AdvanceInto, Advance+NextElementBytes, ForEach+AdvanceIter, Object.Parse/Elements, Interface/Map, Iter.MarshalJSON, Array/Elements.MarshalJSON, FindKey/FindPath, PeekNext/PeekNextTag, serialize round trip) must equal the model and the tape checker must pass. Distinct non-trivial = (document, container, subset, variant) and (document, history) cases with >= 1 effective edit", 16,
		func(c, m map[string]int64) []string {
			out := need(c, "enumerated_deletions", 10000)
			return append(out, need(c, "histories", 2000)...)
		})
	plans["C02"] = &plan{
		rule:        "valid documents from the structured generator (sizes 2 B..8 MiB, depth to 100000, fan-out, duplicate/empty/equal-length keys, escapes, multi-byte UTF-8, long strings, three white-space layouts), boundary families (probe holding every token kind slid across index-buffer ordinals 1408k), documents needing 1..100+ index buffers, sizes 8192+-70, corpus files; each parsed under avx2/avx512 x copy/no-copy and read back through the AdvanceInto, Advance/NextElementBytes, ForEach/AdvanceIter, Object.Parse/Elements and Interface routes, compared with the reference tree. Distinct non-trivial = accepted documents with >= 3 values compared by >= 2 walkers, by content hash",
		assumptions: commonAssumptions,
		jobs: func(tier string) []*job {
			return []*job{{variant: "plain", mode: "main", shards: 16, maxResume: 5}}
		},
		require: func(tier string, c, m map[string]int64, s map[string]map[string]struct{}) []string {
			var out []string
			out = append(out, need(c, "docs_async_path", 50)...)
			if m["max_depth"] < 10000 {
				out = append(out, "max_depth < 10000")
			}
			return out
		},
	}
	plans["C03"] = &plan{
		rule:        "number literals (all integers of 1..6/7 digits both signs, 2^63/2^64/10^19/10^20/2^53 +-3 with .0/e0/E+0/e-0 spellings, 17..23 digit integers, random doubles in 17-digit/shortest/upper-case/plain spellings, exact halfway decimals between adjacent doubles and their neighbours, subnormal and max-finite edges, every power of ten) batched 500 per document as array elements and as object values, under avx2/avx512 x copy/no-copy; Type/Int/Uint/FloatFlags compared with the math/big reference (cross-checked against strconv). Distinct non-trivial = distinct literal texts judged",
		assumptions: commonAssumptions,
		jobs: func(tier string) []*job {
			return []*job{{variant: "plain", mode: "main", shards: 16, maxResume: 5}}
		},
		require: func(tier string, c, m map[string]int64, s map[string]map[string]struct{}) []string {
			var out []string
			out = append(out, need(c, "kind_int", 1000)...)
			out = append(out, need(c, "kind_uint", 10)...)
			out = append(out, need(c, "kind_float", 1000)...)
			out = append(out, need(c, "kind_float_with_overflow_flag", 10)...)
			return out
		},
	}
	plans["C04"] = &plan{
		rule:        "string-focused documents: every non-surrogate \\u code unit in both hex cases and surrogate pairs (batched 1024 per document, as values and as keys), every valid UTF-8 sequence of 1-3 bytes and 4-byte ones (sampled in quick), escapes of each kind at every position of short strings, length 0..4096 x start offset 0..63 layouts, escapes next to 32-byte window and 64-byte block edges, backslash runs 1..9 ending at offsets 56..72, strings ending 0..70 bytes before the end of an input that lies in an end-aligned guard-page mapping, random escape-heavy strings; under avx2/avx512 x copy/no-copy. Strings compared byte for byte with the reference unescape through two routes, tape length words compared with the reference lengths. Distinct non-trivial = distinct (content, guard placement) with >= 1 escape or length >= 32",
		assumptions: commonAssumptions,
		jobs: func(tier string) []*job {
			return []*job{{variant: "plain", mode: "main", shards: 16, maxResume: 5}}
		},
		require: func(tier string, c, m map[string]int64, s map[string]map[string]struct{}) []string {
			var out []string
			out = append(out, need(c, "inputs_in_end_aligned_guard_mapping", 100)...)
			out = append(out, need(c, "escapes_decoded", 100000)...)
			return out
		},
	}
	plans["C17"] = &plan{
		rule:        "tapes from Parse and ParseND of the C02 document workload and NDJSON inputs (both kernels, both string modes), tapes after DeleteElems edits, and tapes rebuilt by Deserialize from serialized fresh and edited tapes (rotating compression modes); each checked by an independent one-pass invariant checker (validated at start on hand-corrupted tapes). Distinct non-trivial = tapes with >= 1 container below the root, by (document, mode) hash",
		assumptions: append([]string{"the tape checker (harness/tapecheck) encodes the documented format correctly; it is self-tested on 13 hand-corrupted tapes at the start of every run"}, commonAssumptions...),
		jobs: func(tier string) []*job {
			return []*job{{variant: "plain", mode: "main", shards: 16, maxResume: 5}}
		},
		require: func(tier string, c, m map[string]int64, s map[string]map[string]struct{}) []string {
			var out []string
			out = append(out, need(c, "tapes_checked_parse", 1000)...)
			out = append(out, need(c, "tapes_checked_parsend", 500)...)
			out = append(out, need(c, "tapes_checked_deserialized", 200)...)
			out = append(out, need(c, "tapes_checked_deserialized-edited", 100)...)
			out = append(out, need(c, "nop_runs", 100)...)
			out = append(out, need(c, "selftest_corruptions_detected", 13)...)
			return out
		},
	}
	plans["C01"] = &plan{
		rule:        "inputs come from: exhaustive token-sequence and number-spelling enumerations, atom/string byte tables at block offsets, alignment carriers (byte offsets, index-buffer ordinals, 8 KiB threshold, large documents), corpus mutants, random bytes; each judged under avx2/avx512 x copy/no-copy. A case counts as distinct non-trivial if it was judged (class must-accept or must-reject, not 'either'), has >= 2 bytes after trimming, and its content hash was not seen before",
		assumptions: commonAssumptions,
		jobs: func(tier string) []*job {
			return []*job{{variant: "plain", mode: "main", shards: 16, maxResume: 5}}
		},
		require: func(tier string, c, m map[string]int64, s map[string]map[string]struct{}) []string {
			var out []string
			out = append(out, need(c, "class_must-accept", 1000)...)
			out = append(out, need(c, "class_must-reject", 100000)...)
			out = append(out, need(c, "inputs_async_path", 100)...)
			return out
		},
	}
}
