package main

import (
	"fmt"
	"time"
)

type job struct {
	variant            string // plain | race | noasm
	mode               string
	shards             int
	gomaxprocs         int // per worker; default 2
	weight             int // scheduling weight in cores; default 1
	gogc               string
	memlimit           string
	env                []string
	quickTimeout       time.Duration
	thoroughTimeout    time.Duration
	maxResume          int
	resumeAfterTimeout bool
}

func (j *job) timeout(tier string) time.Duration {
	if tier == "thorough" {
		if j.thoroughTimeout > 0 {
			return j.thoroughTimeout
		}
		return 3 * time.Hour
	}
	if j.quickTimeout > 0 {
		return j.quickTimeout
	}
	return 25 * time.Minute
}

type plan struct {
	rule        string
	assumptions []string
	jobs        func(tier string) []*job
	// require returns unmet observation minima (each makes the run inconclusive).
	require func(tier string, counters, maxima map[string]int64, sets map[string]map[string]struct{}) []string
}

func noRequire(string, map[string]int64, map[string]int64, map[string]map[string]struct{}) []string {
	return nil
}

func need(counters map[string]int64, name string, min int64) []string {
	if counters[name] < min {
		return []string{fmt.Sprintf("%s=%d < %d", name, counters[name], min)}
	}
	return nil
}

var commonAssumptions = []string{
	"the reference model in harness/ref (RFC 8259 recogniser, unescaper, math/big number rounding) is correct; it is cross-checked against encoding/json and strconv on every case where they apply",
	"the CPU of this machine: AVX2 behaviour is obtained by clearing the AVX512F bit in the cpuid feature set, not by running on an AVX2-only CPU",
	"exploration only: the property held on the executions listed, nothing is claimed about inputs, schedules or histories that were not generated",
}

var plans = map[string]*plan{}

func simple(rule string, variant string, shards int) *plan {
	return &plan{
		rule:        rule,
		assumptions: commonAssumptions,
		jobs: func(tier string) []*job {
			return []*job{{variant: variant, mode: "main", shards: shards, maxResume: 5}}
		},
		require: noRequire,
	}
}

func init() {
	plans["C01"] = &plan{
		rule:        "inputs come from: exhaustive token-sequence and number-spelling enumerations, atom/string byte tables at block offsets, alignment carriers (byte offsets, index-buffer ordinals, 8 KiB threshold, large documents), corpus mutants, random bytes; each judged under avx2/avx512 x copy/no-copy. A case counts as distinct non-trivial if it was judged (class must-accept or must-reject, not 'either'), has >= 2 bytes after trimming, and its content hash was not seen before",
		assumptions: commonAssumptions,
		jobs: func(tier string) []*job {
			return []*job{{variant: "plain", mode: "main", shards: 16, maxResume: 5}}
		},
		require: func(tier string, c, m map[string]int64, s map[string]map[string]struct{}) []string {
			var out []string
			out = append(out, need(c, "class_must-accept", 1000)...)
			out = append(out, need(c, "class_must-reject", 100000)...)
			out = append(out, need(c, "inputs_async_path", 100)...)
			return out
		},
	}
}
