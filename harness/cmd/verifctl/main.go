// Command verifctl is the controller: it builds the workers from /repo's
// current working tree, shards and supervises them, classifies deaths,
// matches known findings, merges evidence and prints the verdict.
// It never calls simdjson-go itself.
package main

import (
	"bytes"
	"crypto/sha1"
	"encoding/binary"
	"encoding/hex"
	"encoding/json"
	"fmt"
	"os"
	"os/exec"
	"path/filepath"
	"regexp"
	"runtime"
	"sort"
	"strconv"
	"strings"
	"sync"
	"syscall"
	"time"

	"verifharness/ev"
)

var (
	verifDir = "/verif"
	repoDir  = "/repo"
)

func main() {
	if d := os.Getenv("VERIF_DIR"); d != "" {
		verifDir = d
	}
	if d := os.Getenv("VERIF_REPO"); d != "" {
		repoDir = d
	}
	args := os.Args[1:]
	if len(args) >= 2 && args[0] == "replay" {
		os.Exit(doReplay(args[1]))
	}
	if len(args) >= 1 && args[0] == "build" {
		// warm the build cache for every variant
		for _, v := range []string{"plain", "race", "noasm"} {
			if _, err := buildWorker(v); err != nil {
				fmt.Fprintln(os.Stderr, err)
				os.Exit(3)
			}
		}
		return
	}
	if len(args) < 1 {
		fmt.Fprintln(os.Stderr, "usage: verifctl <ID> [quick|thorough] | replay <file> | build")
		os.Exit(3)
	}
	id := args[0]
	tier := os.Getenv("VERIF_TIER")
	if len(args) >= 2 {
		tier = args[1]
	}
	if tier != "thorough" {
		tier = "quick"
	}
	seed := uint64(1)
	if s := os.Getenv("VERIF_SEED"); s != "" {
		if v, err := strconv.ParseUint(s, 10, 64); err == nil {
			seed = v
		} else if v, err := strconv.ParseInt(s, 10, 64); err == nil {
			seed = uint64(v)
		}
	}
	os.Exit(runCheck(id, tier, seed))
}

func goEnv() []string {
	env := os.Environ()
	env = append(env, "GOFLAGS=-mod=mod", "GOPROXY=off", "GOSUMDB=off", "GOTOOLCHAIN=local")
	return env
}

var buildMu sync.Mutex

// buildWorker builds the worker for a variant from the current working tree
// of the repository (the harness go.mod replaces the module with /repo).
func buildWorker(variant string) (string, error) {
	buildMu.Lock()
	defer buildMu.Unlock()
	out := filepath.Join(verifDir, ".build", "worker-"+variant)
	args := []string{"build"}
	switch variant {
	case "plain":
		args = append(args, "-tags", "verif")
	case "race":
		args = append(args, "-race", "-tags", "verif")
	case "noasm":
		args = append(args, "-tags", "verif noasm")
	default:
		return "", fmt.Errorf("unknown variant %s", variant)
	}
	args = append(args, "-o", out, "./cmd/worker")
	cmd := exec.Command("go", args...)
	cmd.Dir = filepath.Join(verifDir, "harness")
	cmd.Env = goEnv()
	if variant != "race" {
		// without cgo the Go runtime's "all goroutines are asleep - deadlock!" detector stays armed
		cmd.Env = append(cmd.Env, "CGO_ENABLED=0")
	}
	if repoDir != "/repo" {
		// alternative repo: use a modfile copy with a different replace
		mf := filepath.Join(verifDir, ".build", "alt.mod")
		raw, err := os.ReadFile(filepath.Join(verifDir, "harness", "go.mod"))
		if err != nil {
			return "", err
		}
		raw = bytes.Replace(raw, []byte("=> /repo"), []byte("=> "+repoDir), 1)
		os.WriteFile(mf, raw, 0o644)
		sum, _ := os.ReadFile(filepath.Join(verifDir, "harness", "go.sum"))
		os.WriteFile(filepath.Join(verifDir, ".build", "alt.sum"), sum, 0o644)
		cmd.Args = append(cmd.Args[:2], append([]string{"-modfile=" + mf}, cmd.Args[2:]...)...)
	}
	b, err := cmd.CombinedOutput()
	if err != nil {
		return "", fmt.Errorf("building %s worker failed: %v\n%s", variant, err, b)
	}
	return out, nil
}

// shardResult is what one worker process left behind.
type shardResult struct {
	job       *job
	shard     int
	attempt   int
	out       *ev.Output
	exitCode  int
	signaled  bool
	timedOut  bool
	stderr    string
	journal   *ev.Case
	races     int
	raceText  []string
	wall      float64
	incViols  []*ev.Violation
	startSkip int64
	// cpuExceeded: set when the controller ended the worker because one journaled case used up
	// its processor-time budget
	cpuExceeded string
	blocked     string // set by the blocked-worker rule (no progress, no CPU, all threads asleep)
}

type finding struct {
	Key      string   `json:"key"`
	Detail   string   `json:"detail"`
	Case     *ev.Case `json:"case"`
	Count    int      `json:"count"`
	Mode     string   `json:"mode"`
	Variant  string   `json:"variant"`
	Property string   `json:"property"`
	Replay   string   `json:"replay,omitempty"`
	Known    bool     `json:"known"`
}

func runCheck(id, tier string, seed uint64) int {
	start := time.Now()
	plan, ok := plans[id]
	if !ok {
		fmt.Fprintf(os.Stderr, "no check for property %s\n", id)
		return 3
	}
	work := filepath.Join(verifDir, ".work", id+"-"+tier)
	os.RemoveAll(work)
	os.MkdirAll(work, 0o755)
	os.MkdirAll(filepath.Join(verifDir, "evidence"), 0o755)
	evPath := filepath.Join(verifDir, "evidence", id+".json")
	os.Remove(evPath)

	jobs := plan.jobs(tier)
	// build
	bins := map[string]string{}
	for _, j := range jobs {
		if _, ok := bins[j.variant]; ok {
			continue
		}
		b, err := buildWorker(j.variant)
		if err != nil {
			fmt.Println(err)
			fmt.Printf("BUILD-FAILED property=%s variant=%s\n", id, j.variant)
			return 3
		}
		bins[j.variant] = b
	}

	// schedule: tokens = cores
	cores := runtime.NumCPU()
	if cores > 16 {
		cores = 16
	}
	// VERIF_CORES: fewer worker slots (background sweeps that must leave the machine usable); never below the heaviest job
	if v, err := strconv.Atoi(os.Getenv("VERIF_CORES")); err == nil && v >= 4 && v < cores {
		cores = v
	}
	sem := make(chan struct{}, cores)
	var mu, acq sync.Mutex
	var results []*shardResult
	maxStage := 0
	for _, j := range jobs {
		if j.stage > maxStage {
			maxStage = j.stage
		}
	}
	for stage := 0; stage <= maxStage; stage++ {
		var wg sync.WaitGroup
		for _, j := range jobs {
			if j.stage != stage {
				continue
			}
			j := j
			for s := 0; s < j.shards; s++ {
				s := s
				wg.Add(1)
				go func() {
					defer wg.Done()
					weight := j.weight
					if weight < 1 {
						weight = 1
					}
					if weight > cores {
						weight = cores
					}
					acq.Lock() // all tokens of one shard are taken together, or shards could starve each other
					for i := 0; i < weight; i++ {
						sem <- struct{}{}
					}
					acq.Unlock()
					rs := runShard(bins[j.variant], id, tier, seed, j, s, work)
					for i := 0; i < weight; i++ {
						<-sem
					}
					mu.Lock()
					results = append(results, rs...)
					mu.Unlock()
				}()
			}
		}
		wg.Wait()
		// a worker that deadlocked in this stage makes the later (slower, watchdog-based) stages pointless
		stop := false
		mu.Lock()
		for _, r := range results {
			if r.out == nil || !r.out.Done {
				if c, v, _ := classifyDeath(r); v && c == "deadlock" {
					stop = true
				}
			}
		}
		mu.Unlock()
		if stop && stage < maxStage {
			fmt.Printf("note: a worker deadlocked in stage %d; later stages skipped\n", stage)
			break
		}
	}
	return conclude(id, tier, seed, plan, results, work, evPath, time.Since(start))
}

// runShard runs one shard, resuming after deaths (up to maxResume times).
func runShard(bin, id, tier string, seed uint64, j *job, shard int, work string) []*shardResult {
	var all []*shardResult
	skip := int64(0)
	nonTerm := 0
	for attempt := 0; attempt <= j.maxResume; attempt++ {
		r := runWorker(bin, id, tier, seed, j, shard, attempt, skip, work)
		all = append(all, r)
		died := r.out == nil || !r.out.Done
		if !died {
			break
		}
		if r.journal == nil || r.journal.D <= skip || r.timedOut && !j.resumeAfterTimeout {
			break
		}
		// every non-terminating call costs its whole processor-time budget: two witnesses
		// per shard are enough
		if c, _, _ := classifyDeath(r); c == "non-terminating" {
			if nonTerm++; nonTerm >= 2 {
				break
			}
		}
		skip = r.journal.D
	}
	return all
}

func runWorker(bin, id, tier string, seed uint64, j *job, shard, attempt int, skip int64, work string) *shardResult {
	base := filepath.Join(work, fmt.Sprintf("%s-%s-s%d-a%d", j.variant, j.mode, shard, attempt))
	outPath := base + ".json"
	jPath := base + ".journal"
	errPath := base + ".stderr"
	raceLog := base + ".race"
	args := []string{"-prop", id, "-mode", j.mode, "-variant", j.variant, "-tier", tier, "-seed", strconv.FormatUint(seed, 10),
		"-shard", strconv.Itoa(shard), "-nshards", strconv.Itoa(j.shards), "-out", outPath, "-journal", jPath, "-repo", repoDir}
	if skip > 0 {
		args = append(args, "-skip-until", strconv.FormatInt(skip, 10))
	}
	if j.memcapMB > 0 {
		args = append(args, "-memcap-mb", strconv.Itoa(j.memcapMB))
	}
	cmd := exec.Command(bin, args...)
	cmd.Dir = work
	env := os.Environ()
	gmp := j.gomaxprocs
	if gmp == 0 {
		gmp = 2
	}
	env = append(env, "GOMAXPROCS="+strconv.Itoa(gmp), "GOTRACEBACK=all")
	if j.gogc != "" {
		env = append(env, "GOGC="+j.gogc)
	} else {
		env = append(env, "GOGC=400")
	}
	if j.memlimit != "" {
		env = append(env, "GOMEMLIMIT="+j.memlimit)
	}
	if j.variant == "race" {
		env = append(env, "GORACE=halt_on_error=0 history_size=3 log_path="+raceLog)
	}
	env = append(env, j.env...)
	cmd.Env = env
	ef, _ := os.Create(errPath)
	cmd.Stderr = ef
	cmd.Stdout = ef
	cmd.SysProcAttr = &syscall.SysProcAttr{Setpgid: true, Pdeathsig: syscall.SIGKILL}
	r := &shardResult{job: j, shard: shard, attempt: attempt, startSkip: skip}
	start := time.Now()
	// Pdeathsig follows the creating *thread*: keep it alive (and ours) until the worker is gone
	runtime.LockOSThread()
	defer runtime.UnlockOSThread()
	if err := cmd.Start(); err != nil {
		r.exitCode = 3
		r.stderr = err.Error()
		return r
	}
	done := make(chan error, 1)
	go func() { done <- cmd.Wait() }()
	// Processor-time bound on one journaled case (jobs whose cases are bounded by contract): the
	// worker's CPU time (/proc/<pid>/stat, so a loaded machine does not count against it) is
	// compared with the progress of its journal. A case that has consumed the whole budget without
	// finishing gets a goroutine dump (SIGQUIT) and is classified from that dump.
	stopCPU := make(chan struct{})
	{
		go func() {
			var lastSeq int64 = -1
			var cpu0, cpuPrev float64
			idle, asleep := 0, 0
			t := time.NewTicker(time.Second)
			defer t.Stop()
			for {
				select {
				case <-stopCPU:
					return
				case <-t.C:
				}
				seq, ok1 := journalSeq(jPath)
				cpu, ok2 := procCPU(cmd.Process.Pid)
				if !ok1 || !ok2 {
					continue
				}
				// Blocked worker: the journal does not move, the process uses next to no processor
				// time and every one of its threads is asleep (not runnable: a starved process on a
				// loaded machine is runnable), 40 samples in a row. Workers never sleep or wait for
				// anything outside themselves, so this is a process in which nothing can run any
				// more; it gets the goroutine dump at once instead of at the watchdog, and the dump
				// decides (the same rule as for the watchdog).
				// (a worker with the resource-bound monitor has a 20 ms ticker: a percent or two of one
				// processor and a thread that is now and then awake at the sampling instant)
				if seq == lastSeq && cpu-cpuPrev < 0.05 {
					idle++
					if allThreadsAsleep(cmd.Process.Pid) {
						asleep++
					}
				} else {
					idle, asleep = 0, 0
				}
				cpuPrev = cpu
				if idle >= 40 && asleep >= 30 {
					r.blocked = fmt.Sprintf("case #%d: no journal progress, no processor time and every thread asleep for %d s", seq, idle)
					r.timedOut = true
					cmd.Process.Signal(syscall.SIGQUIT)
					return
				}
				if j.cpuBudgetS <= 0 {
					if seq != lastSeq {
						lastSeq = seq
					}
					continue
				}
				if seq != lastSeq {
					lastSeq, cpu0 = seq, cpu
					continue
				}
				if cpu-cpu0 > float64(j.cpuBudgetS) {
					r.cpuExceeded = fmt.Sprintf("case #%d consumed %.0f s of processor time without finishing (budget %d s)", seq, cpu-cpu0, j.cpuBudgetS)
					cmd.Process.Signal(syscall.SIGQUIT)
					return
				}
			}
		}()
	}
	defer close(stopCPU)
	limit := j.timeout(tier)
	var err error
	select {
	case err = <-done:
	case <-time.After(limit):
		r.timedOut = true
		// goroutine dump, then make sure it is gone
		cmd.Process.Signal(syscall.SIGQUIT)
		select {
		case err = <-done:
		case <-time.After(20 * time.Second):
			syscall.Kill(-cmd.Process.Pid, syscall.SIGKILL)
			err = <-done
		}
	}
	ef.Close()
	r.wall = time.Since(start).Seconds()
	if err != nil {
		if ee, ok := err.(*exec.ExitError); ok {
			r.exitCode = ee.ExitCode()
			if ws, ok := ee.Sys().(syscall.WaitStatus); ok && ws.Signaled() {
				r.signaled = true
			}
		} else {
			r.exitCode = 3
		}
	}
	if raw, err := os.ReadFile(outPath); err == nil {
		var o ev.Output
		if json.Unmarshal(raw, &o) == nil {
			r.out = &o
		}
	}
	if raw, err := os.ReadFile(outPath + ".viol.jsonl"); err == nil {
		for _, line := range bytes.Split(raw, []byte("\n")) {
			if len(line) == 0 {
				continue
			}
			var v ev.Violation
			if json.Unmarshal(line, &v) == nil {
				r.incViols = append(r.incViols, &v)
			}
		}
	}
	if raw, err := os.ReadFile(errPath); err == nil {
		if len(raw) > 4<<20 {
			raw = append(raw[:2<<20], raw[len(raw)-(2<<20):]...)
		}
		r.stderr = string(raw)
	}
	if r.out == nil || !r.out.Done {
		if cs, _, err := ev.ReadJournal(jPath); err == nil {
			r.journal = cs
		}
	}
	os.Remove(jPath)
	// race logs
	if j.variant == "race" {
		matches, _ := filepath.Glob(raceLog + ".*")
		for _, m := range matches {
			raw, _ := os.ReadFile(m)
			blocks := splitRaceBlocks(string(raw))
			r.races += len(blocks)
			r.raceText = append(r.raceText, blocks...)
		}
		// reports may also land on stderr
		blocks := splitRaceBlocks(r.stderr)
		r.races += len(blocks)
		r.raceText = append(r.raceText, blocks...)
	}
	return r
}

func splitRaceBlocks(s string) []string {
	var out []string
	for {
		i := strings.Index(s, "WARNING: DATA RACE")
		if i < 0 {
			return out
		}
		s = s[i:]
		j := strings.Index(s, "==================\n")
		if j < 0 {
			out = append(out, s)
			return out
		}
		out = append(out, s[:j])
		s = s[j+1:]
	}
}

var frameRe = regexp.MustCompile(`(?m)^\s+(github\.com/minio/simdjson-go\.[^\s(]+)`)

// raceSignature: the outermost simdjson entry points of both stacks.
func raceSignature(block string) string {
	parts := strings.Split(block, "\n\n")
	var sigs []string
	for _, p := range parts {
		if !strings.Contains(p, " by ") && !strings.Contains(p, "Previous") {
			continue
		}
		if strings.HasPrefix(strings.TrimSpace(p), "Goroutine") {
			continue
		}
		m := frameRe.FindAllStringSubmatch(p, -1)
		if len(m) == 0 {
			continue
		}
		sigs = append(sigs, m[len(m)-1][1])
	}
	sort.Strings(sigs)
	if len(sigs) == 0 {
		h := sha1.Sum([]byte(block))
		return "nosimdjsonframe-" + hex.EncodeToString(h[:4])
	}
	return strings.Join(sigs, "+")
}

// journalSeq reads the sequence number of the case the worker journaled last.
func journalSeq(path string) (int64, bool) {
	f, err := os.Open(path)
	if err != nil {
		return 0, false
	}
	defer f.Close()
	var b [8]byte
	if _, err := f.ReadAt(b[:], 32); err != nil {
		return 0, false
	}
	return int64(binary.LittleEndian.Uint64(b[:])), true
}

// allThreadsAsleep reports whether every thread of the process is in state S (interruptible sleep).
func allThreadsAsleep(pid int) bool {
	ents, err := os.ReadDir(fmt.Sprintf("/proc/%d/task", pid))
	if err != nil || len(ents) == 0 {
		return false
	}
	for _, e := range ents {
		raw, err := os.ReadFile(fmt.Sprintf("/proc/%d/task/%s/stat", pid, e.Name()))
		if err != nil {
			return false
		}
		i := bytes.LastIndexByte(raw, ')')
		if i < 0 || i+2 >= len(raw) || raw[i+2] != 'S' {
			return false
		}
	}
	return true
}

// procCPU returns the user+system CPU seconds of a process.
func procCPU(pid int) (float64, bool) {
	raw, err := os.ReadFile(fmt.Sprintf("/proc/%d/stat", pid))
	if err != nil {
		return 0, false
	}
	i := bytes.LastIndexByte(raw, ')')
	if i < 0 {
		return 0, false
	}
	f := strings.Fields(string(raw[i+1:]))
	if len(f) < 13 {
		return 0, false
	}
	ut, e1 := strconv.ParseFloat(f[11], 64)
	st, e2 := strconv.ParseFloat(f[12], 64)
	if e1 != nil || e2 != nil {
		return 0, false
	}
	return (ut + st) / 100, true // USER_HZ is 100 on Linux
}

// runningLibraryGoroutine returns the first goroutine of a dump that is running or runnable
// (not blocked) with a frame of the library on its stack.
func runningLibraryGoroutine(dump string) string {
	for _, g := range strings.Split(dump, "\n\n") {
		hdr := g
		if k := strings.Index(g, "\n"); k > 0 {
			hdr = g[:k]
		}
		if !strings.HasPrefix(hdr, "goroutine ") || !(strings.Contains(hdr, "[running") || strings.Contains(hdr, "[runnable")) {
			continue
		}
		if strings.Contains(g, "github.com/minio/simdjson-go.") {
			return headLines(g, 30)
		}
	}
	return ""
}

// classifyDeath inspects a dead worker's stderr.
func classifyDeath(r *shardResult) (class string, violation bool, detail string) {
	s := r.stderr
	tail := s
	if len(tail) > 6000 {
		tail = tail[:3000] + "\n...\n" + tail[len(tail)-3000:]
	}
	switch {
	case r.cpuExceeded != "":
		if g := runningLibraryGoroutine(s); g != "" {
			return "non-terminating", true, r.cpuExceeded + "; CPU time of the process, not wall-clock. A goroutine is executing (not blocked) in the library:\n" + g
		}
		return "timeout", false, r.cpuExceeded + "; the goroutine dump shows no goroutine executing in the library\n" + tail
	case strings.Contains(s, "RESOURCE-BOUND-EXCEEDED"):
		i := strings.Index(s, "RESOURCE-BOUND-EXCEEDED")
		return "unbounded-memory", true, "the call under test made the live heap exceed the resource bound (non-terminating or unbounded traversal)\n" + headLines(s[i:], 50)
	case strings.Contains(s, "all goroutines are asleep - deadlock!"):
		return "deadlock", true, "Go runtime: all goroutines are asleep - deadlock!\n" + tail
	case strings.Contains(s, "stack overflow") || strings.Contains(s, "goroutine stack exceeds"):
		return "stack-overflow", true, "fatal: goroutine stack exceeds limit\n" + headLines(s, 30)
	case strings.Contains(s, "fatal error: checkptr"):
		return "checkptr", true, tail
	case strings.Contains(s, "unexpected fault address") || strings.Contains(s, "SIGSEGV") || strings.Contains(s, "SIGBUS"):
		return "fault", true, "memory fault (guard page or wild access)\n" + headLines(s, 60)
	case strings.Contains(s, "fatal error: runtime: out of memory") || strings.Contains(s, "cannot allocate memory"):
		return "oom", false, tail
	case r.timedOut:
		what := "watchdog fired"
		if r.blocked != "" {
			what = "worker blocked (" + r.blocked + ")"
		}
		if dl, why := dumpShowsDeadlock(s); dl {
			return "deadlock", true, what + " and the goroutine dump shows every simdjson goroutine blocked: " + why + "\n" + tail
		}
		return "timeout", false, what + "; goroutine dump does not show a deadlock\n" + tail
	case strings.Contains(s, "panic:") || strings.Contains(s, "fatal error:"):
		return "panic", true, headLines(s, 60)
	case r.exitCode == 3:
		return "harness-error", false, tail
	case r.signaled:
		return "killed", false, tail
	}
	return "unknown-exit", false, tail
}

func headLines(s string, n int) string {
	lines := strings.SplitN(s, "\n", n+1)
	if len(lines) > n {
		lines = lines[:n]
	}
	return strings.Join(lines, "\n")
}

// dumpShowsDeadlock parses a SIGQUIT goroutine dump: deadlock iff there is at
// least one goroutine with a simdjson frame, all such goroutines are blocked
// (chan send/receive, semacquire/WaitGroup, select) and no goroutine at all is
// running user code (runnable/running outside the runtime's own helpers).
func dumpShowsDeadlock(s string) (bool, string) {
	i := strings.Index(s, "SIGQUIT")
	if i < 0 {
		return false, ""
	}
	blocks := strings.Split(s[i:], "\n\ngoroutine ")
	lib, blocked := 0, 0
	var states []string
	for _, b := range blocks[1:] {
		hdr := b
		if k := strings.Index(b, "\n"); k >= 0 {
			hdr = b[:k]
		}
		st := ""
		if a := strings.Index(hdr, "["); a >= 0 {
			if z := strings.Index(hdr[a:], "]"); z >= 0 {
				st = hdr[a+1 : a+z]
			}
		}
		isLib := strings.Contains(b, "github.com/minio/simdjson-go.")
		isHarnessWait := strings.Contains(b, "main.") && !isLib
		blk := strings.HasPrefix(st, "chan send") || strings.HasPrefix(st, "chan receive") || strings.HasPrefix(st, "semacquire") || strings.HasPrefix(st, "select") || strings.HasPrefix(st, "sync.")
		if isLib {
			lib++
			if blk {
				blocked++
			}
			states = append(states, st)
		} else if isHarnessWait && !blk && (strings.HasPrefix(st, "running") || strings.HasPrefix(st, "runnable")) {
			// the harness itself is busy: not a deadlock of the library
			return false, "harness goroutine " + st
		}
	}
	if lib > 0 && lib == blocked {
		return true, fmt.Sprintf("%d library goroutines, states %v", lib, states)
	}
	return false, ""
}

type knownEntry struct {
	prop, key, text string
}

func loadKnown() []knownEntry {
	raw, err := os.ReadFile(filepath.Join(verifDir, "KNOWN_FINDINGS.txt"))
	if err != nil {
		return nil
	}
	var out []knownEntry
	for _, line := range strings.Split(string(raw), "\n") {
		line = strings.TrimSpace(line)
		if !strings.HasPrefix(line, "known:") {
			continue
		}
		f := strings.Fields(line[len("known:"):])
		var e knownEntry
		rest := []string{}
		for _, t := range f {
			switch {
			case strings.HasPrefix(t, "property=") && e.prop == "":
				e.prop = t[len("property="):]
			case strings.HasPrefix(t, "key=") && e.key == "":
				e.key = t[len("key="):]
			default:
				rest = append(rest, t)
			}
		}
		e.text = strings.Join(rest, " ")
		if e.prop != "" && e.key != "" {
			out = append(out, e)
		}
	}
	return out
}

func conclude(id, tier string, seed uint64, plan *plan, results []*shardResult, work, evPath string, wall time.Duration) int {
	known := loadKnown()
	merged := map[string]*finding{}
	var order []string
	addFinding := func(v *ev.Violation, r *shardResult) {
		if f := merged[v.Key]; f != nil {
			f.Count += v.Count
			return
		}
		f := &finding{Key: v.Key, Detail: v.Detail, Case: v.Case, Count: v.Count, Mode: r.job.mode, Variant: r.job.variant, Property: id}
		merged[v.Key] = f
		order = append(order, v.Key)
	}
	var evaluations, distinctCons int64
	counters := map[string]int64{}
	maxima := map[string]int64{}
	sets := map[string]map[string]struct{}{}
	exhaustive := map[string]int64{}
	var samples []interface{}
	var inconclusive []string
	var oracle []*ev.Violation
	hashes := map[uint64]struct{}{}
	hashCapped := false
	type jobSummary struct {
		Variant      string  `json:"variant"`
		Mode         string  `json:"mode"`
		Shards       int     `json:"shards"`
		Deaths       int     `json:"deaths"`
		Resumed      int     `json:"resumed"`
		Evaluations  int64   `json:"evaluations"`
		MaxShardWall float64 `json:"max_shard_wall_s"`
		Races        int     `json:"race_reports"`
	}
	jsum := map[*job]*jobSummary{}
	raceSigs := map[string]int{}
	raceExample := map[string]string{}
	for _, r := range results {
		js := jsum[r.job]
		if js == nil {
			js = &jobSummary{Variant: r.job.variant, Mode: r.job.mode, Shards: r.job.shards}
			jsum[r.job] = js
		}
		if r.attempt > 0 {
			js.Resumed++
		}
		if r.wall > js.MaxShardWall {
			js.MaxShardWall = r.wall
		}
		if r.out != nil {
			o := r.out
			evaluations += o.Evaluations
			js.Evaluations += o.Evaluations
			distinctCons += o.DistinctCons
			for k, v := range o.Counters {
				counters[k] += v
			}
			for k, v := range o.Maxima {
				if old, ok := maxima[k]; !ok || v > old {
					maxima[k] = v
				}
			}
			for k, l := range o.Sets {
				if sets[k] == nil {
					sets[k] = map[string]struct{}{}
				}
				for _, m := range l {
					sets[k][m] = struct{}{}
				}
			}
			for k, v := range o.Exhaustive {
				exhaustive[k] += v
			}
			if len(samples) < 10 {
				for _, s := range o.Samples {
					if len(samples) < 10 {
						samples = append(samples, s)
					}
				}
			}
			for _, v := range o.Violations {
				addFinding(v, r)
			}
			oracle = append(oracle, o.Oracle...)
			for _, s := range o.Inconclusive {
				inconclusive = append(inconclusive, fmt.Sprintf("%s/%s shard %d: %s", r.job.variant, r.job.mode, r.shard, s))
			}
			if o.HashCapped {
				hashCapped = true
			}
			if o.HashFile != "" {
				if raw, err := os.ReadFile(o.HashFile); err == nil {
					for i := 0; i+8 <= len(raw); i += 8 {
						hashes[binary.LittleEndian.Uint64(raw[i:])] = struct{}{}
					}
				}
				os.Remove(o.HashFile)
			}
		}
		if r.out == nil || !r.out.Done {
			// the process died (or never produced output)
			js.Deaths++
			for _, v := range r.incViols {
				addFinding(v, r)
			}
			class, isViol, detail := classifyDeath(r)
			gen, text := "?", ""
			var cs *ev.Case
			if r.journal != nil {
				cs = r.journal
				gen, text = cs.Gen, cs.Text
			} else {
				cs = &ev.Case{Gen: "no-journal"}
			}
			key := fmt.Sprintf("%s/death/%s/%s", id, class, gen)
			if text != "" && len(text) <= 80 && !strings.ContainsAny(text, " \n\t") {
				key += "/" + text
			}
			if isViol {
				addFinding(&ev.Violation{Key: key, Detail: fmt.Sprintf("worker %s/%s shard %d died (%s) while executing the journaled case gen=%s %s\n%s", r.job.variant, r.job.mode, r.shard, class, gen, text, detail), Case: cs, Count: 1}, r)
			} else {
				inconclusive = append(inconclusive, fmt.Sprintf("%s/%s shard %d: worker ended abnormally (%s, exit %d) at case gen=%s %s: %s", r.job.variant, r.job.mode, r.shard, class, r.exitCode, gen, text, lastLines(detail, 12)))
			}
		}
		if r.races > 0 {
			js.Races += r.races
			for _, b := range r.raceText {
				sig := raceSignature(b)
				raceSigs[sig]++
				if _, ok := raceExample[sig]; !ok {
					raceExample[sig] = b
				}
			}
		}
	}
	// race reports become violations keyed by entry-point pair
	var sigList []string
	for sig := range raceSigs {
		sigList = append(sigList, sig)
	}
	sort.Strings(sigList)
	for _, sig := range sigList {
		ex := raceExample[sig]
		if len(ex) > 6000 {
			ex = ex[:6000]
		}
		v := &ev.Violation{Key: id + "/race/" + sig, Detail: fmt.Sprintf("%d race report(s) with outermost entry points %s; first:\n%s", raceSigs[sig], sig, ex), Case: &ev.Case{Gen: "race", Text: sig}, Count: raceSigs[sig]}
		f := &finding{Key: v.Key, Detail: v.Detail, Case: v.Case, Count: v.Count, Mode: "race", Variant: "race", Property: id}
		merged[v.Key] = f
		order = append(order, v.Key)
	}

	// known findings and replay files
	os.MkdirAll(filepath.Join(verifDir, "replay", id), 0o755)
	var viols, knownHits []*finding
	for _, k := range order {
		f := merged[k]
		for _, ke := range known {
			if ke.prop == id && ke.key == f.Key {
				f.Known = true
				f.Detail = ke.text + " | " + f.Detail
			}
		}
		h := sha1.Sum([]byte(f.Key))
		rp := filepath.Join(verifDir, "replay", id, hex.EncodeToString(h[:8])+".json")
		if b, err := json.MarshalIndent(f, "", " "); err == nil {
			os.WriteFile(rp, b, 0o644)
			f.Replay = rp
		}
		if f.Known {
			knownHits = append(knownHits, f)
		} else {
			viols = append(viols, f)
		}
	}

	distinct := distinctCons + int64(len(hashes))
	minima := plan.require(tier, counters, maxima, sets)
	for _, m := range minima {
		inconclusive = append(inconclusive, "observation minimum not met: "+m)
	}
	if evaluations == 0 {
		inconclusive = append(inconclusive, "no evaluations at all")
	}
	if len(oracle) > 0 {
		for _, o := range oracle {
			fmt.Printf("ORACLE-DISAGREEMENT property=%s key=%s %s\n", id, o.Key, firstLine(o.Detail))
		}
		inconclusive = append(inconclusive, fmt.Sprintf("%d oracle disagreement(s): harness defect, run is not a verdict", len(oracle)))
	}

	// evidence
	setOut := map[string][]string{}
	for k, s := range sets {
		var l []string
		for m := range s {
			l = append(l, m)
		}
		sort.Strings(l)
		if len(l) > 300 {
			l = append(l[:300], fmt.Sprintf("... (%d total)", len(l)))
		}
		setOut[k] = l
	}
	var jl []*jobSummary
	for _, j := range plan.jobs(tier) {
		_ = j
	}
	for _, js := range jsum {
		jl = append(jl, js)
	}
	sort.Slice(jl, func(a, b int) bool { return jl[a].Variant+jl[a].Mode < jl[b].Variant+jl[b].Mode })
	if len(samples) == 0 {
		samples = append(samples, "no sample recorded")
	}
	var vk, kk []map[string]interface{}
	for _, f := range viols {
		vk = append(vk, map[string]interface{}{"key": f.Key, "count": f.Count, "replay": f.Replay, "detail": clipS(f.Detail, 600)})
	}
	for _, f := range knownHits {
		kk = append(kk, map[string]interface{}{"key": f.Key, "count": f.Count, "replay": f.Replay})
	}
	cov := map[string]interface{}{
		"evaluations":             evaluations,
		"distinct_nontrivial":     distinct,
		"distinct_is_lower_bound": hashCapped,
		"rule":                    plan.rule,
		"samples":                 samples,
		"exhaustive":              false,
		"exhaustive_subspaces":    exhaustive,
		"counters":                counters,
		"maxima":                  maxima,
		"observed_classes":        setOut,
		"jobs":                    jl,
		"race_reports":            len(raceSigs),
		"violation_keys":          vk,
		"known_findings_hit":      kk,
		"inconclusive":            inconclusive,
		"oracle_disagreements":    len(oracle),
	}
	evd := map[string]interface{}{
		"property_id": id,
		"tier":        tier,
		"seed":        int64(seed),
		"level":       "exploration",
		"coverage":    cov,
		"assumptions": plan.assumptions,
		"wall_s":      wall.Seconds(),
		"violations":  len(viols),
	}
	if b, err := json.MarshalIndent(evd, "", " "); err == nil {
		os.WriteFile(evPath, b, 0o644)
	}

	// verdict
	fmt.Printf("property=%s tier=%s seed=%d evaluations=%d distinct_nontrivial=%d wall=%.1fs\n", id, tier, seed, evaluations, distinct, wall.Seconds())
	var ckeys []string
	for k := range counters {
		ckeys = append(ckeys, k)
	}
	sort.Strings(ckeys)
	for _, k := range ckeys {
		fmt.Printf("  %s=%d\n", k, counters[k])
	}
	var mkeys []string
	for k := range maxima {
		mkeys = append(mkeys, k)
	}
	sort.Strings(mkeys)
	for _, k := range mkeys {
		fmt.Printf("  max %s=%d\n", k, maxima[k])
	}
	for _, f := range knownHits {
		fmt.Printf("KNOWN-FINDING: property=%s %s (x%d) replay=%s\n", id, f.Key, f.Count, f.Replay)
	}
	for _, f := range viols {
		fmt.Printf("VIOLATION property=%s replay=%s\n", id, f.Replay)
		fmt.Printf("  key=%s count=%d\n  %s\n", f.Key, f.Count, clipS(f.Detail, 1500))
	}
	if len(viols) > 0 {
		return 1
	}
	if len(inconclusive) > 0 {
		for _, s := range inconclusive {
			fmt.Printf("INCONCLUSIVE property=%s reason=%s\n", id, clipS(s, 1500))
		}
		return 2
	}
	fmt.Printf("HELD property=%s on everything explored\n", id)
	return 0
}

func lastLines(s string, n int) string {
	l := strings.Split(strings.TrimSpace(s), "\n")
	if len(l) > n {
		l = l[len(l)-n:]
	}
	return strings.Join(l, " | ")
}

func firstLine(s string) string {
	if i := strings.Index(s, "\n"); i >= 0 {
		return s[:i]
	}
	return s
}

func clipS(s string, n int) string {
	if len(s) > n {
		return s[:n] + "..."
	}
	return s
}

func doReplay(path string) int {
	raw, err := os.ReadFile(path)
	if err != nil {
		fmt.Fprintln(os.Stderr, err)
		return 3
	}
	var f finding
	if err := json.Unmarshal(raw, &f); err != nil {
		fmt.Fprintln(os.Stderr, err)
		return 3
	}
	variant := f.Variant
	if variant == "" {
		variant = "plain"
	}
	bin, err := buildWorker(variant)
	if err != nil {
		fmt.Println(err)
		return 3
	}
	cmd := exec.Command(bin, "-prop", f.Property, "-mode", f.Mode, "-variant", variant, "-replay", path, "-repo", repoDir)
	cmd.Stdout = os.Stdout
	cmd.Stderr = os.Stderr
	cmd.Env = append(os.Environ(), "GOTRACEBACK=all")
	if err := cmd.Run(); err != nil {
		if ee, ok := err.(*exec.ExitError); ok {
			if ee.ExitCode() == 1 {
				return 1
			}
			fmt.Printf("replay: worker died: %v\n", err)
			return 1
		}
		return 3
	}
	return 0
}
