// Package tapecheck asserts the documented tape format on an exported
// ParsedJson (Tape, Strings.B, Message) without using the library's readers.
package tapecheck

import (
	"fmt"

	simdjson "github.com/minio/simdjson-go"
)

const (
	tagShift   = 56
	valMask    = 0xff_ffff_ffff_ffff
	strBufBit  = 0x80_0000_0000_0000
	strBufMask = 0x7f_ffff_ffff_ffff
)

// Stats describes what a checked tape contained.
type Stats struct {
	Roots      int
	Containers int
	Strings    int
	StrInBuf   int
	StrInMsg   int
	Numbers    int
	Nops       int
	NopRuns    int
	MaxDepth   int
	KeyValOdd  int // objects whose live entries are not key/value pairs (counted, not judged)
}

// Options selects the rule set.
type Options struct {
	AllowNop bool // edited or deserialized tapes may hold NOP runs
	// NopExact: every NOP at p with payload k must have p+k equal to the
	// index of the next live (non-NOP) entry, k >= 1.
	NopExact bool
}

type scope struct {
	tag   byte
	start int
	end   int // index one past the closing entry (payload of the opening)
	live  int // live entries directly inside (for key/value parity)
}

// Check returns nil when pj's tape obeys the documented format.
func Check(pj *simdjson.ParsedJson, opt Options) (Stats, error) {
	var st Stats
	tape := pj.Tape
	n := len(tape)
	var msgLen, bufLen uint64
	msgLen = uint64(len(pj.Message))
	if pj.Strings != nil {
		bufLen = uint64(len(pj.Strings.B))
	}
	if n == 0 {
		return st, fmt.Errorf("empty tape")
	}
	var stack []scope
	i := 0
	inNop := false
	for i < n {
		w := tape[i]
		tag := byte(w >> tagShift)
		val := w & valMask
		if tag != 'N' {
			inNop = false
		}
		if len(stack) == 0 && tag != 'r' && tag != 'N' {
			return st, fmt.Errorf("entry %d: tag %q outside any root", i, tag)
		}
		switch tag {
		case 'r':
			if len(stack) == 0 {
				// opening root: payload = index of closing root + 1
				if val < uint64(i)+2 || val > uint64(n) {
					return st, fmt.Errorf("entry %d: opening root payload %d out of range (tape %d)", i, val, n)
				}
				c := tape[val-1]
				if byte(c>>tagShift) != 'r' {
					return st, fmt.Errorf("entry %d: opening root points to %d whose predecessor is %q, not a root", i, val, byte(c>>tagShift))
				}
				if c&valMask != uint64(i) {
					return st, fmt.Errorf("entry %d: closing root at %d points back to %d", i, val-1, c&valMask)
				}
				stack = append(stack, scope{tag: 'r', start: i, end: int(val)})
				st.Roots++
				i++
				continue
			}
			top := stack[len(stack)-1]
			if top.tag != 'r' || len(stack) != 1 {
				return st, fmt.Errorf("entry %d: root tag inside %q", i, top.tag)
			}
			if top.end != i+1 {
				return st, fmt.Errorf("entry %d: closing root, but opening root at %d points to %d", i, top.start, top.end)
			}
			if val != uint64(top.start) {
				return st, fmt.Errorf("entry %d: closing root points to %d, opening is at %d", i, val, top.start)
			}
			if top.live != 1 && !(opt.AllowNop && top.live <= 1) {
				return st, fmt.Errorf("entry %d: root holds %d values", i, top.live)
			}
			stack = stack[:0]
			i++
			continue
		case '{', '[':
			if val < uint64(i)+2 || val > uint64(n) {
				return st, fmt.Errorf("entry %d: %q payload %d out of range", i, tag, val)
			}
			c := tape[val-1]
			want := byte('}')
			if tag == '[' {
				want = ']'
			}
			if byte(c>>tagShift) != want {
				return st, fmt.Errorf("entry %d: %q points one past %d which holds %q", i, tag, val-1, byte(c>>tagShift))
			}
			if c&valMask != uint64(i) {
				return st, fmt.Errorf("entry %d: matching end at %d points back to %d", i, val-1, c&valMask)
			}
			top := &stack[len(stack)-1]
			if int(val) > top.end-1 {
				return st, fmt.Errorf("entry %d: %q ends at %d beyond its parent's end %d", i, tag, val, top.end)
			}
			top.live++
			stack = append(stack, scope{tag: tag, start: i, end: int(val)})
			if len(stack) > st.MaxDepth {
				st.MaxDepth = len(stack)
			}
			st.Containers++
			i++
			continue
		case '}', ']':
			top := stack[len(stack)-1]
			want := byte('{')
			if tag == ']' {
				want = '['
			}
			if top.tag != want {
				return st, fmt.Errorf("entry %d: %q closes %q", i, tag, top.tag)
			}
			if top.end != i+1 {
				return st, fmt.Errorf("entry %d: end of %q opened at %d, which points to %d", i, top.tag, top.start, top.end)
			}
			if val != uint64(top.start) {
				return st, fmt.Errorf("entry %d: %q points back to %d, start is %d", i, tag, val, top.start)
			}
			if top.tag == '{' && top.live%2 != 0 {
				st.KeyValOdd++
			}
			stack = stack[:len(stack)-1]
			i++
			continue
		case '"':
			if i+1 >= n {
				return st, fmt.Errorf("entry %d: string without length word", i)
			}
			ln := tape[i+1]
			if val&strBufBit != 0 {
				off := val & strBufMask
				if off+ln > bufLen || off+ln < off {
					return st, fmt.Errorf("entry %d: string buffer range %d+%d outside Strings.B (%d)", i, off, ln, bufLen)
				}
				st.StrInBuf++
			} else {
				if val+ln > msgLen || val+ln < val {
					return st, fmt.Errorf("entry %d: message range %d+%d outside Message (%d)", i, val, ln, msgLen)
				}
				st.StrInMsg++
			}
			st.Strings++
			stack[len(stack)-1].live++
			if i+2 > stack[len(stack)-1].end-1 {
				return st, fmt.Errorf("entry %d: string overlaps the end of its container", i)
			}
			i += 2
			continue
		case 'l', 'u', 'd':
			// The tag word's low bits (float flags) are not constrained by the documented format.
			if i+1 >= n {
				return st, fmt.Errorf("entry %d: number without payload word", i)
			}
			if i+2 > stack[len(stack)-1].end-1 {
				return st, fmt.Errorf("entry %d: number overlaps the end of its container", i)
			}
			st.Numbers++
			stack[len(stack)-1].live++
			i += 2
			continue
		case 'n', 't', 'f':
			stack[len(stack)-1].live++
			i++
			continue
		case 'N':
			if !opt.AllowNop {
				return st, fmt.Errorf("entry %d: NOP in a freshly parsed tape", i)
			}
			if val < 1 {
				return st, fmt.Errorf("entry %d: NOP with skip %d", i, val)
			}
			if uint64(i)+val > uint64(n) {
				return st, fmt.Errorf("entry %d: NOP skips to %d beyond tape %d", i, uint64(i)+val, n)
			}
			if len(stack) > 0 && int(uint64(i)+val) > stack[len(stack)-1].end-1 {
				return st, fmt.Errorf("entry %d: NOP skips to %d past its container's end entry %d", i, uint64(i)+val, stack[len(stack)-1].end-1)
			}
			if opt.NopExact {
				// the run of NOPs starting here must end exactly at i+val
				j := i
				for j < n && byte(tape[j]>>tagShift) == 'N' {
					j++
				}
				if uint64(j) != uint64(i)+val {
					return st, fmt.Errorf("entry %d: NOP skip %d lands on %d, next live entry is %d", i, val, uint64(i)+val, j)
				}
			}
			st.Nops++
			if !inNop {
				st.NopRuns++
			}
			inNop = true
			if opt.NopExact {
				i++
			} else {
				// Words under a NOP skip are dead: follow the skip like a reader does.
				i += int(val)
			}
			continue
		default:
			return st, fmt.Errorf("entry %d: undocumented tag %#x", i, tag)
		}
	}
	if len(stack) != 0 {
		return st, fmt.Errorf("tape ends inside %q opened at %d", stack[len(stack)-1].tag, stack[len(stack)-1].start)
	}
	return st, nil
}
