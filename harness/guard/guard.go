// Package guard allocates byte slices whose last byte is the last byte before
// a PROT_NONE page (or whose first byte is the first byte after one). It is
// the "sanitizer" for the hand-written assembly, which no compiler sanitizer
// instruments: any access past the slice faults deterministically.
package guard

import (
	"fmt"
	"syscall"
	"unsafe"
)

var pageSize = syscall.Getpagesize()

// Region is a mapping with an inaccessible page on each side.
type Region struct {
	mem  []byte // whole mapping including both guard pages
	size int    // usable bytes between the guards
}

// New maps a region with at least n usable bytes.
func New(n int) (*Region, error) {
	usable := (n + pageSize - 1) / pageSize * pageSize
	if usable == 0 {
		usable = pageSize
	}
	total := usable + 2*pageSize
	mem, err := syscall.Mmap(-1, 0, total, syscall.PROT_READ|syscall.PROT_WRITE, syscall.MAP_ANON|syscall.MAP_PRIVATE)
	if err != nil {
		return nil, fmt.Errorf("mmap: %w", err)
	}
	if err := syscall.Mprotect(mem[:pageSize], syscall.PROT_NONE); err != nil {
		return nil, fmt.Errorf("mprotect: %w", err)
	}
	if err := syscall.Mprotect(mem[total-pageSize:], syscall.PROT_NONE); err != nil {
		return nil, fmt.Errorf("mprotect: %w", err)
	}
	return &Region{mem: mem, size: usable}, nil
}

// Size returns the usable size.
func (r *Region) Size() int { return r.size }

// End returns a slice of length n (len == cap) that ends exactly at the
// trailing guard page, filled with data.
func (r *Region) End(data []byte) []byte {
	n := len(data)
	if n > r.size {
		return nil
	}
	hi := len(r.mem) - pageSize
	s := r.mem[hi-n : hi : hi]
	copy(s, data)
	return s
}

// EndCap returns an empty slice with capacity c that ends exactly at the
// trailing guard page (for destination buffers).
func (r *Region) EndCap(c int) []byte {
	if c > r.size {
		return nil
	}
	hi := len(r.mem) - pageSize
	return r.mem[hi-c : hi-c : hi]
}

// Start returns a slice that begins right after the leading guard page.
func (r *Region) Start(data []byte) []byte {
	n := len(data)
	if n > r.size {
		return nil
	}
	s := r.mem[pageSize : pageSize+n : pageSize+n]
	copy(s, data)
	return s
}

// Bounds returns the address ranges of the two guard pages.
func (r *Region) Bounds() (lo0, lo1, hi0, hi1 uintptr) {
	base := uintptr(unsafe.Pointer(&r.mem[0]))
	return base, base + uintptr(pageSize), base + uintptr(len(r.mem)-pageSize), base + uintptr(len(r.mem))
}

// Free unmaps the region.
func (r *Region) Free() {
	if r.mem != nil {
		syscall.Munmap(r.mem)
		r.mem = nil
	}
}
