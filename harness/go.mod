module verifharness

go 1.22

require (
	github.com/klauspost/compress v1.18.0
	github.com/klauspost/cpuid/v2 v2.2.10
	github.com/minio/simdjson-go v0.0.0
	golang.org/x/sys v0.30.0
)

replace github.com/minio/simdjson-go => /repo
