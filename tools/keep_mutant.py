#!/usr/bin/env python3
# usage: keep_mutant.py <outdir> <k> <seeded-id> <property> <caught_by comma list> <missed_by comma list or -> [note]
import sys, json, os, shutil
out,k,sid,prop,caught,missed=sys.argv[1:7]
note=sys.argv[7] if len(sys.argv)>7 else ""
d='/verif/seeded/'+sid
os.makedirs(d,exist_ok=True)
shutil.copy(f'{out}/patch{k}.diff', d+'/patch.diff')
shutil.copy(f'{out}/demo{k}_test.go', d+'/demo_test.go')
meta_md=open(f'{out}/meta{k}.md').read()
meta={
 "id":sid,
 "breaks_property":prop,
 "round":int(__import__("os").environ.get("ROUND","0")),
 "source":"independent sub-agent given only the property text and a scratch worktree",
 "needs_to_manifest_and_description":meta_md,
 "confirmed_by_me":{
   "how":"tools/try_mutant.sh: copy demo into /repo, run it on the unchanged tree (passes), git apply patch, go build (plain and -tags verif), run the 30 pinned tests (pass), run the demo (fails), run the checks, git checkout",
   "pinned_tests_with_change":"pass","demo_without_change":"pass","demo_with_change":"fail"},
 "caught_by":[(c if ' ' in c else c+' quick') for c in caught.split(',') if c and c!='-'],
 "missed_by":[c for c in missed.split(',') if c and c!='-'],
 "note":note
}
json.dump(meta,open(d+'/meta.json','w'),indent=1)
print("kept",d)
