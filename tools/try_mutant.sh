#!/bin/bash
# usage: tools/try_mutant.sh <dir with patchK.diff demoK_test.go> <K> <tier> <PROP> [PROP...]
# Confirms the seeded change (pinned tests pass, demo fails with / passes without), then runs the checks against it.
export GOFLAGS=-mod=mod GOPROXY=off GOSUMDB=off GOTOOLCHAIN=local
dir=$1; k=$2; tier=$3; shift 3
patch=$dir/patch$k.diff; demo=$dir/demo${k}_test.go
cd /repo || exit 1
if [ -n "$(git status --porcelain)" ]; then echo "REPO DIRTY"; exit 1; fi
PINNED='TestExcludeNewlineDelimitersWithinQuotes|TestFinalizeStructurals|TestFindNewlineDelimiters|TestFindOddBackslashSequences|TestFindQuoteMaskAndBits|TestFindStructuralBits|TestFindStructuralBitsLoop|TestFindStructuralBitsWhitespacePadding|TestFindWhitespaceAndStructurals|TestFlattenBitsIncremental|TestNdjsonCountWhere$'
cp $demo /repo/zz_verif_demo_test.go
echo "== demo without change:"; go test -vet=off -count=1 -run "TestVerifDemo$k" . 2>&1 | tail -1
if ! git apply --check $patch 2>/dev/null; then echo "PATCH DOES NOT APPLY"; rm -f /repo/zz_verif_demo_test.go; exit 1; fi
git apply $patch
echo "== build:"; go build ./... && go build -tags verif ./... && echo ok
echo "== pinned tests with change:"; go test -vet=off -count=1 -run "$PINNED" . 2>&1 | tail -1
echo "== demo with change:"; go test -vet=off -count=1 -run "TestVerifDemo$k" . 2>&1 | tail -1
rm -f /repo/zz_verif_demo_test.go
for p in "$@"; do
  echo "== check $p $tier:"
  ( cd /verif && ./check $p $tier 2>&1 | grep -E "^(VIOLATION|KNOWN|HELD|INCONCLUSIVE|property=|BUILD|  key=)" | cut -c1-300 | head -12 )
done
git -C /repo checkout -- . ; git -C /repo clean -fdq
echo "== repo restored: $(git -C /repo status --porcelain | wc -l) dirty files"
