#!/bin/bash
# Re-applies every seeded change to /repo, runs the first check listed in its caught_by
# (quick tier) and reports whether it still raises a VIOLATION. /repo is restored after each.
# usage: tools/replay_seeded.sh [id-prefix]
export GOFLAGS=-mod=mod GOPROXY=off GOSUMDB=off GOTOOLCHAIN=local
cd /verif || exit 1
if [ -n "$(git -C /repo status --porcelain)" ]; then echo "REPO DIRTY"; exit 1; fi
ok=0; bad=0
for d in /verif/seeded/${1}*/; do
  id=$(basename $d)
  chk=$(python3 -c "import json;m=json.load(open('$d/meta.json'));print(m['caught_by'][0].split()[0])")
  if ! git -C /repo apply --check $d/patch.diff 2>/dev/null; then echo "$id: PATCH DOES NOT APPLY"; bad=$((bad+1)); continue; fi
  git -C /repo apply $d/patch.diff
  s=$(date +%s)
  out=$(timeout 2400 ./check $chk quick 2>&1); rc=$?
  e=$(( $(date +%s) - s ))
  git -C /repo checkout -- . ; git -C /repo clean -fdq
  if echo "$out" | grep -q "^VIOLATION property=$chk"; then
    ok=$((ok+1)); echo "$id: caught by $chk quick (exit $rc, ${e}s) $(echo "$out" | grep '  key=' | head -1 | cut -c1-110)"
  else
    bad=$((bad+1)); echo "$id: NOT CAUGHT by $chk quick (exit $rc, ${e}s) $(echo "$out" | grep -E '^(INCONCL|BUILD)' | head -1 | cut -c1-150)"
  fi
done
echo "summary: $ok caught, $bad not caught"
