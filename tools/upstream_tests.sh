#!/bin/bash
# Runs every upstream test of /repo by name except the one that needs the network
# (the plain "go test ./..." run dies in TestNdjsonCountWhere2 and skips the rest).
# Used after each "fix:" commit, with the verif guard off.
cd /repo || exit 1
export GOFLAGS=-mod=mod GOPROXY=off GOSUMDB=off GOTOOLCHAIN=local
names=$(go test -vet=off -count=1 -list '.*' . | grep -v "^ok" | grep -v "TestNdjsonCountWhere2\|Benchmark\|Fuzz\|Example" | tr '\n' '|' | sed 's/|$//')
go test -vet=off -count=1 -run "^(${names})\$" . "$@"
