#!/bin/bash
# usage: tools/run_all.sh <tier> [seed] [ids...]   — runs checks in sequence, prints one line per check
cd "$(dirname "$0")/.." || exit 1
tier=${1:-quick}; seed=${2:-1}; shift 2 2>/dev/null
ids="$@"; [ -z "$ids" ] && ids=$(cat tools/built.txt)
for id in $ids; do
  s=$(date +%s)
  out=$(VERIF_SEED=$seed ./check $id $tier 2>&1); rc=$?
  e=$(( $(date +%s) - s ))
  echo "$id tier=$tier seed=$seed exit=$rc ${e}s $(echo "$out" | grep -E '^(VIOLATION|INCONCLUSIVE|BUILD)' | head -3 | cut -c1-160 | tr '\n' ' ')"
done
