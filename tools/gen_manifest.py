#!/usr/bin/env python3
# Regenerates /verif/MANIFEST.json from the table below (properties.jsonl is only read for ids).
import json, subprocess
props=[json.loads(l) for l in open('/verif/properties.jsonl')]
hooks=subprocess.run(['git','-C','/repo','log','--format=%h %s'],capture_output=True,text=True).stdout.splitlines()
hook_commits=[l.split()[0] for l in hooks if l.split(' ',1)[1].startswith('verif:')]
T={
 'C01':("differential oracle (independent RFC 8259 recogniser, cross-checked with encoding/json) over exhaustive token/number enumerations, byte tables, alignment carriers, mutants and random bytes","the recogniser in harness/ref; encoding/json.Valid as second opinion; this CPU"),
 'C02':("reference-tree comparison of five public read routes on generated, boundary-placed and corpus documents","harness/ref value builder; generators reach the named boundaries (counters in evidence)"),
 'C03':("math/big number oracle (cross-checked with strconv) on enumerated and boundary literals","harness/ref NumberValue; strconv as second opinion"),
 'C04':("reference unescape comparison over exhaustive escape tables and length x offset layouts, inputs in guard-page mappings","harness/ref unescaper; mmap/mprotect guard pages fault on any out-of-bounds access by the assembly"),
 'C05':("crash/fault/deadlock monitoring of hostile inputs: recover(), guard pages, Go runtime deadlock detector, goroutine-leak and channel-drain monitors, race build","process supervision by the controller; guard pages; the runtime's deadlock detector (plain, cgo-free build)"),
 'C06':("differential execution of the AVX2 and AVX-512 kernels (cpuid feature bit toggled at run time)","AVX2 behaviour is obtained by clearing AVX512F in the cpuid feature set on this AVX-512 CPU"),
 'C07':("hook-driven forced schedules x parser histories with online shadow-ownership monitor of the index-buffer ring, content and history checkers, runtime deadlock detector, race detector","verif hook points; schedules are forced only at the hooks"),
 'C08':("per-line Parse + reference-tree oracle over enumerated and generated NDJSON inputs","Parse as the acceptance oracle (as the property is phrased) plus harness/ref for the documents"),
 'C09':("recorded-stream oracle under adversarial readers, injected reader errors, hook-forced chunk completion orders; runtime deadlock detector and race detector","verif chunk hooks; fragmenting/failing reader written for the purpose"),
 'C10':("validity + same-document + fixed-point oracles on marshalled text of fresh and edited tapes","harness/ref recogniser and value builder"),
 'C11':("model comparison of serialize/deserialize round trips under seeded serializer/destination histories, kept-blob integrity monitor; cross-build check against a noasm worker; race slice","harness/ref; typed canonical dumps compared across builds"),
 'C12':("model-based checking of lookups, filtered iteration and bulk accessors with a math/big conversion oracle","harness/ref tree; math/big conversion rules as stated in the property"),
 'C13':("model-based history checking: seeded Set* sequences, reader matrix and tape checker after every operation","harness/ref tree as mutable model"),
 'C14':("model-based history checking: exhaustive member-subset deletions and seeded edit histories, callback monitor, reader matrix after every step","harness/ref tree as mutable model"),
 'C15':("differential execution: every call on reused objects (well-formed and malformed inputs and blobs) against the same call on fresh objects, incl. the exported Tape/Strings.B, plus input-overwrite and channel-drain monitors; race slice","fresh objects as the oracle"),
 'C16':("before/after snapshot monitoring across input overwrites, input-integrity monitors (the library never writes into a caller's buffer), clone/original edit isolation, stream values","all read routes agree with the model before the overwrite"),
 'C17':("independent one-pass tape invariant checker at quiescent points (after Parse, ParseND, edits, Deserialize)","harness/tapecheck, self-tested on hand-corrupted tapes at every run"),
 'C18':("differential oracle against encoding/json plus independent round-trip/shortest-digit/format checks over stratified float64 bit patterns","encoding/json and strconv"),
 'C19':("fault injection into serialized blobs (truncation, bit flips, splices, framing-preserving structural mutation) with panic/fault/deadlock/resource-bound monitors","harness re-framer checked on unmutated blobs; resource bound 1 GiB live heap during traversals"),
 'C20':("race detector plus per-goroutine transcript comparison against solo runs","transcripts are deterministic functions of the seeded program"),
}
L={
 'C01':"Every generated input is classified must-accept / must-reject / either by an independent recogniser and Parse's verdict is compared under both kernels and both string modes; two sub-spaces (token sequences, number spellings) are enumerated completely.",
 'C02':'Every accepted document is read back through five public routes and compared with the reference tree, with documents built to put every token kind on every index-buffer, block and threshold boundary.',
 'C03':'Type, exact integer, correctly rounded double (bit compare) and overflow flag of every literal are compared with a math/big oracle.',
 'C04':'Every exposed string is compared byte for byte with the reference unescape, over complete escape tables and a length x alignment sweep, with inputs ending at a guard page.',
 'C05':'Hostile inputs under recover(), guard pages, goroutine/channel monitors and process supervision; every returned result is swept by all readers.',
 'C06':'The two kernel families are run on the same inputs and their outcomes, tapes and string buffers compared word for word.',
 'C07':'Schedules of the two stages are forced at the hand-off hooks while an ownership monitor, a content monitor and a history checker watch the ring; outcomes are compared with the reference and with the unforced schedule.',
 'C08':"ParseND's verdict and roots are compared with Parse and the reference on each non-blank line.",
 'C09':'The recorded element sequence of ParseNDStream is judged offline under adversarial readers, injected reader errors and hook-forced chunk completion orders.',
 'C10':'Marshalled text of fresh and edited tapes must be valid JSON, denote the model document and be a parse+marshal fixed point; non-finite floats must give errors.',
 'C11':'Round trips under seeded serializer/destination histories are compared with the model, and blobs are re-read by a worker built without assembly.',
 'C12':'Lookups, filtered iteration, bulk accessors and numeric conversions are compared with a model tree and a math/big conversion oracle.',
 'C13':'After every Set* call of a seeded history all readers and the tape checker must agree with a model that is updated only where the documentation allows the call.',
 'C14':'Every subset of members of small containers is deleted and, after seeded histories, every reader must expose exactly the model; a callback monitor checks the visits.',
 'C15':'Every call on reused objects is compared with the same call on fresh objects, across histories of failures, sizes, options and edits.',
 'C16':'Readers are snapshotted, the input (or chunk buffer) is overwritten, and every reader is run again; clones and originals are edited independently.',
 'C17':'An independent checker asserts the documented tape invariants after every successful Parse/ParseND, after edits and after Deserialize.',
 'C18':'Every rendering is compared byte for byte with encoding/json and independently checked for round trip, shortest digits and format.',
 'C19':'Mutated blobs (incl. framing-preserving structural mutation) are deserialized under panic, fault, deadlock and resource-bound monitors, and results are swept by all readers.',
 'C20':'Goroutines run seeded programs on their own objects together and alone; the race detector and per-goroutine transcripts decide; cold-start trials cover first use.',
}
built=set(l.strip() for l in open('/verif/tools/built.txt') if l.strip())
m={
 "version":1,
 "setup_cmd":"./setup.sh",
 "hooks":{"guard":"verif (Go build tag)","enable":"workers are built with `go build -tags verif` (plus -race / noasm variants) by harness/cmd/verifctl; harness/go.mod replaces the module with /repo, so every check rebuilds from /repo's working tree","baseline_off_cmd":"cd /repo && go test -json -vet=off -count=1 -timeout 25m ./...","source_commits":hook_commits,"add_only":True},
 "engines":[{"name":"verifctl+worker","path":"harness/","serves_properties":sorted(built),"kind_free_text":"runtime monitoring: a controller (cmd/verifctl) builds and supervises sharded worker processes (cmd/worker) that run the real library under oracles, guard pages, the Go race detector, the runtime deadlock detector and hook-driven schedules; deaths are classified from a crash journal"}],
 "checks":[],
 "notes":"./check <ID> quick|thorough; ./check replay <file>. Exit 0 held, 1 violation (VIOLATION lines), 2 inconclusive, 3 build/harness failure. KNOWN_FINDINGS.txt lists known findings and repaired defects; seeded/ holds the independently written breaking changes and which checks catch them.",
 "not_applicable":[]
}
for p in props:
    i=p['id']
    if i in built:
        tech,note=T[i]
        m['checks'].append({
          "property_id":i,
          "quick_cmd":"./check %s quick"%i,
          "thorough_cmd":"./check %s thorough"%i,
          "evidence_file":"/verif/evidence/%s.json"%i,
          "replay_cmd_template":"./check replay {path}",
          "engine":"verifctl+worker",
          "level_claimed":{"category":"exploration","text":L.get(i,"")+" Held on the executions counted in the evidence file; nothing is claimed beyond what was executed. Exploration is the right level here: the property quantifies over all inputs/schedules/histories of hand-written SIMD assembly and goroutines, which this family can only sample - densely and at every boundary the code names - with total oracles.","design_ref":"DESIGN.md §5 "+i+" (as built), §10 (seeded changes caught)"},
          "level_note":"trusted base: "+note,
          "technique":"runtime monitoring: "+tech
        })
    else:
        m['not_applicable'].append({"property_id":i,"reason":"check not finished yet in this session (monitor designed in DESIGN.md §5 "+i+"); not claimed until it runs clean"})
json.dump(m,open('/verif/MANIFEST.json','w'),indent=1)
print(len(m['checks']),'claimed',len(m['not_applicable']),'not claimed')
