#!/usr/bin/env python3
# Regenerates /verif/MANIFEST.json from the table below (properties.jsonl is only read for ids).
import json, subprocess
props=[json.loads(l) for l in open('/verif/properties.jsonl')]
hooks=subprocess.run(['git','-C','/repo','log','--format=%h %s'],capture_output=True,text=True).stdout.splitlines()
hook_commits=[l.split()[0] for l in hooks if l.split(' ',1)[1].startswith('verif:')]
T={
 'C01':("differential oracle (independent RFC 8259 recogniser, cross-checked with encoding/json) over exhaustive token/number enumerations, byte tables, alignment carriers, mutants and random bytes","the recogniser in harness/ref; encoding/json.Valid as second opinion; this CPU"),
 'C02':("reference-tree comparison of five public read routes on generated, boundary-placed and corpus documents","harness/ref value builder; generators reach the named boundaries (counters in evidence)"),
 'C03':("math/big number oracle (cross-checked with strconv) on enumerated and boundary literals","harness/ref NumberValue; strconv as second opinion"),
 'C04':("reference unescape comparison over exhaustive escape tables and length x offset layouts, inputs in guard-page mappings","harness/ref unescaper; mmap/mprotect guard pages fault on any out-of-bounds access by the assembly"),
 'C05':("crash/fault/deadlock monitoring of hostile inputs: recover(), guard pages, Go runtime deadlock detector, goroutine-leak and channel-drain monitors, race build","process supervision by the controller; guard pages; the runtime's deadlock detector (plain, cgo-free build)"),
 'C06':("differential execution of the AVX2 and AVX-512 kernels (cpuid feature bit toggled at run time)","AVX2 behaviour is obtained by clearing AVX512F in the cpuid feature set on this AVX-512 CPU"),
 'C07':("hook-driven forced schedules with online shadow-ownership monitor of the index-buffer ring, content and history checkers, runtime deadlock detector, race detector","verif hook points; schedules are forced only at the hooks"),
 'C08':("per-line Parse + reference-tree oracle over enumerated and generated NDJSON inputs","Parse as the acceptance oracle (as the property is phrased) plus harness/ref for the documents"),
 'C09':("recorded-stream oracle under adversarial readers, injected reader errors, hook-forced chunk completion orders; runtime deadlock detector and race detector","verif chunk hooks; fragmenting/failing reader written for the purpose"),
 'C10':("validity + same-document + fixed-point oracles on marshalled text of fresh and edited tapes","harness/ref recogniser and value builder"),
 'C11':("model comparison of serialize/deserialize round trips under seeded serializer/destination histories; cross-build check against a noasm worker; race slice","harness/ref; typed canonical dumps compared across builds"),
 'C12':("model-based checking of lookups, filtered iteration and bulk accessors with a math/big conversion oracle","harness/ref tree; math/big conversion rules as stated in the property"),
 'C13':("model-based history checking: seeded Set* sequences, reader matrix and tape checker after every operation","harness/ref tree as mutable model"),
 'C14':("model-based history checking: exhaustive member-subset deletions and seeded edit histories, callback monitor, reader matrix after every step","harness/ref tree as mutable model"),
 'C15':("differential execution: every call on reused objects against the same call on fresh objects, plus input-overwrite and channel-drain monitors; race slice","fresh objects as the oracle"),
 'C16':("before/after snapshot monitoring across input overwrites, clone/original edit isolation, stream values","all read routes agree with the model before the overwrite"),
 'C17':("independent one-pass tape invariant checker at quiescent points (after Parse, ParseND, edits, Deserialize)","harness/tapecheck, self-tested on hand-corrupted tapes at every run"),
 'C18':("differential oracle against encoding/json plus independent round-trip/shortest-digit/format checks over stratified float64 bit patterns","encoding/json and strconv"),
 'C19':("fault injection into serialized blobs (truncation, bit flips, splices, framing-preserving structural mutation) with panic/fault/deadlock/resource-bound monitors","harness re-framer checked on unmutated blobs; resource bound 1 GiB live heap during traversals"),
 'C20':("race detector plus per-goroutine transcript comparison against solo runs","transcripts are deterministic functions of the seeded program"),
}
built=set(l.strip() for l in open('/verif/tools/built.txt') if l.strip())
m={
 "version":1,
 "setup_cmd":"./setup.sh",
 "hooks":{"guard":"verif (Go build tag)","enable":"workers are built with `go build -tags verif` (plus -race / noasm variants) by harness/cmd/verifctl; harness/go.mod replaces the module with /repo, so every check rebuilds from /repo's working tree","baseline_off_cmd":"cd /repo && go test -json -vet=off -count=1 -timeout 25m ./...","source_commits":hook_commits,"add_only":True},
 "engines":[{"name":"verifctl+worker","path":"harness/","serves_properties":sorted(built),"kind_free_text":"runtime monitoring: a controller (cmd/verifctl) builds and supervises sharded worker processes (cmd/worker) that run the real library under oracles, guard pages, the Go race detector, the runtime deadlock detector and hook-driven schedules; deaths are classified from a crash journal"}],
 "checks":[],
 "notes":"./check <ID> quick|thorough; ./check replay <file>. Exit 0 held, 1 violation (VIOLATION lines), 2 inconclusive, 3 build/harness failure. KNOWN_FINDINGS.txt lists known findings and repaired defects; seeded/ holds the independently written breaking changes and which checks catch them.",
 "not_applicable":[]
}
for p in props:
    i=p['id']
    if i in built:
        tech,note=T[i]
        m['checks'].append({
          "property_id":i,
          "quick_cmd":"./check %s quick"%i,
          "thorough_cmd":"./check %s thorough"%i,
          "evidence_file":"/verif/evidence/%s.json"%i,
          "replay_cmd_template":"./check replay {path}",
          "engine":"verifctl+worker",
          "level_claimed":{"category":"exploration","text":"held on the executions counted in the evidence file (inputs, boundaries, schedules, histories listed there); nothing is claimed beyond what was executed","design_ref":"DESIGN.md §5 "+i},
          "level_note":"trusted base: "+note,
          "technique":"runtime monitoring: "+tech
        })
    else:
        m['not_applicable'].append({"property_id":i,"reason":"check not finished yet in this session (monitor designed in DESIGN.md §5 "+i+"); not claimed until it runs clean"})
json.dump(m,open('/verif/MANIFEST.json','w'),indent=1)
print(len(m['checks']),'claimed',len(m['not_applicable']),'not claimed')
