#!/bin/bash
# usage: tools/try_round_wt.sh <round> <ID> [extra check ids...]  — both changes of one sub-agent through try_wt.sh
r=$1; id=$2; shift 2
for k in 1 2; do
  out=$(timeout 3000 /verif/tools/try_wt.sh $r $id $k $id "$@" 2>&1)
  echo "$out" > /tmp/scratch/o$r-$id/trial$k.log
  dwo=$(echo "$out" | grep -A1 "demo without" | tail -1 | cut -c1-20)
  dw=$(echo "$out" | grep -A1 "demo with change" | tail -1 | cut -c1-20)
  pin=$(echo "$out" | grep -A1 "pinned tests" | tail -1 | cut -c1-12)
  res=""; cur=""; seen=""
  while IFS= read -r line; do
    case "$line" in
      "== check "*) cur=$(echo "$line" | awk '{print $3}'); seen="";;
      VIOLATION*) if [ -z "$seen" ]; then res="$res $cur:CAUGHT"; seen=1; fi;;
      HELD*) res="$res $cur:held";;
      INCONCLUSIVE*) if [ -z "$seen" ]; then res="$res $cur:inconclusive"; seen=1; fi;;
      "PATCH DOES NOT APPLY") res="$res PATCH-NOAPPLY";;
      BUILD*) res="$res $cur:BUILD-FAILED";;
    esac
  done <<< "$out"
  first=$(echo "$out" | grep "  key=" | head -1 | cut -c1-150)
  echo "$id#$k demo_without=[$dwo] pinned=[$pin] demo_with=[$dw] => $res | $first"
done
