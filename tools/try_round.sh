#!/bin/bash
# usage: tools/try_round.sh <prefix like /tmp/scratch/o2-> <ID> [extra check ids...]
# Confirms and tries both changes of one sub-agent; prints one summary line per change.
pre=$1; id=$2; shift 2
for k in 1 2; do
  out=$(timeout 2400 /verif/tools/try_mutant.sh ${pre}${id} $k quick $id "$@" 2>&1)
  dwo=$(echo "$out" | grep -A1 "demo without" | tail -1 | cut -c1-20)
  dw=$(echo "$out" | grep -A1 "demo with change" | tail -1 | cut -c1-20)
  pin=$(echo "$out" | grep -A1 "pinned tests" | tail -1 | cut -c1-12)
  res=""
  cur=""
  seen=""
  while IFS= read -r line; do
    case "$line" in
      "== check "*) cur=$(echo "$line" | awk '{print $3}'); seen="";;
      VIOLATION*) if [ -z "$seen" ]; then res="$res $cur:CAUGHT"; seen=1; fi;;
      HELD*) res="$res $cur:held";;
      INCONCLUSIVE*) if [ -z "$seen" ]; then res="$res $cur:inconclusive"; seen=1; fi;;
      "PATCH DOES NOT APPLY") res="$res PATCH-NOAPPLY";;
    esac
  done <<< "$out"
  first=$(echo "$out" | grep "  key=" | head -1 | cut -c1-150)
  echo "$id#$k demo_without=[$dwo] pinned=[$pin] demo_with=[$dw] => $res | $first"
done
