#!/bin/bash
# usage: tools/try_wt.sh <round> <ID> <K> <check> [check...]
# Like try_mutant.sh, but works in the sub-agent's own scratch worktree (/tmp/scratch/w<round>-<ID>) and a
# scratch copy of /verif, so several trials can run side by side and /repo is never touched.
# Checks run with VERIF_REPO=<worktree>; nothing registered in MANIFEST.json uses this script.
export GOFLAGS=-mod=mod GOPROXY=off GOSUMDB=off GOTOOLCHAIN=local
r=$1; id=$2; k=$3; shift 3
W=/tmp/scratch/w$r-$id; O=/tmp/scratch/o$r-$id; V=/tmp/scratch/v$r-$id-$k
patch=$O/patch$k.diff; demo=$O/demo${k}_test.go
[ -f "$patch" ] && [ -f "$demo" ] || { echo "MISSING DELIVERABLES $patch $demo"; exit 1; }
cd $W || exit 1
git checkout -q -- . ; git clean -fdq
PINNED='TestExcludeNewlineDelimitersWithinQuotes|TestFinalizeStructurals|TestFindNewlineDelimiters|TestFindOddBackslashSequences|TestFindQuoteMaskAndBits|TestFindStructuralBits|TestFindStructuralBitsLoop|TestFindStructuralBitsWhitespacePadding|TestFindWhitespaceAndStructurals|TestFlattenBitsIncremental|TestNdjsonCountWhere$'
cp $demo $W/zz_verif_demo_test.go
echo "== demo without change:"; go test -vet=off -count=1 -run "TestVerifDemo$k\$" . 2>&1 | tail -1
if ! git apply --check $patch 2>/dev/null; then echo "PATCH DOES NOT APPLY"; rm -f $W/zz_verif_demo_test.go; exit 1; fi
git apply $patch
echo "== build:"; go build ./... && go build -tags verif ./... && echo ok
echo "== pinned tests with change:"; go test -vet=off -count=1 -run "$PINNED" . 2>&1 | tail -1
echo "== demo with change:"; go test -vet=off -count=1 -run "TestVerifDemo$k\$" . 2>&1 | tail -1
rm -f $W/zz_verif_demo_test.go
rm -rf $V; mkdir -p $V
rsync -a --exclude .git --exclude .build --exclude .work --exclude replay --exclude seeded /verif/ $V/
for p in "$@"; do
  echo "== check $p quick:"
  ( cd $V && VERIF_REPO=$W VERIF_CORES=${VERIF_CORES:-8} ./check $p quick 2>&1 | grep -E "^(VIOLATION|KNOWN|HELD|INCONCLUSIVE|property=|BUILD|  key=)" | cut -c1-300 | head -12 )
done
rm -rf $V
git -C $W checkout -q -- . ; git -C $W clean -fdq
echo "== worktree restored: $(git -C $W status --porcelain | wc -l) dirty files"
