#!/bin/bash
# usage: tools/replay_one_wt.sh <seeded-id>   — applies one seeded change in a scratch worktree of /repo's HEAD,
# runs the first check of its caught_by list (quick) from a scratch copy of /verif, prints one line, cleans up.
export GOFLAGS=-mod=mod GOPROXY=off GOSUMDB=off GOTOOLCHAIN=local
id=$1; d=/verif/seeded/$id
W=/tmp/scratch/rw-$id; V=/tmp/scratch/rv-$id
chk=$(python3 -c "import json;m=json.load(open('$d/meta.json'));print(m['caught_by'][0].split()[0])")
rm -rf $V; git -C /repo worktree remove --force $W 2>/dev/null
git -C /repo worktree add -q --detach $W HEAD || { echo "$id: WORKTREE FAILED"; exit 1; }
if ! git -C $W apply $d/patch.diff 2>/dev/null; then
  if ! git -C $W apply -3 $d/patch.diff 2>/dev/null; then echo "$id: PATCH DOES NOT APPLY"; git -C /repo worktree remove --force $W; exit 0; fi
fi
mkdir -p $V; rsync -a --exclude .git --exclude .build --exclude .work --exclude replay --exclude seeded /verif/ $V/
s=$(date +%s)
out=$(cd $V && VERIF_REPO=$W VERIF_CORES=${VERIF_CORES:-6} timeout 2400 ./check $chk quick 2>&1); rc=$?
e=$(( $(date +%s) - s ))
if echo "$out" | grep -q "^VIOLATION property=$chk"; then
  echo "$id: caught by $chk quick (exit $rc, ${e}s) $(echo "$out" | grep '  key=' | head -1 | cut -c1-110)"
else
  echo "$id: NOT CAUGHT by $chk quick (exit $rc, ${e}s) $(echo "$out" | grep -E '^(INCONCL|BUILD)' | head -1 | cut -c1-150)"
fi
rm -rf $V; git -C /repo worktree remove --force $W
