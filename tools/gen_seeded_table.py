#!/usr/bin/env python3
# Regenerates the table of seeded changes in DESIGN.md (between the seeded-table markers)
# from seeded/<id>/meta.json. usage: tools/gen_seeded_table.py
import json, glob, re
rows = []
for f in sorted(glob.glob('/verif/seeded/*/meta.json')):
    m = json.load(open(f))
    cb = ', '.join(c if ' ' in c else c + ' quick' for c in m.get('caught_by', []))
    note = (m.get('note') or '').replace('|', '/').replace('\n', ' ')
    if m.get('missed_by'):
        extra = 'not reported by ' + ', '.join(m['missed_by']) + ' quick'
        note = (note + '; ' + extra) if note else extra
    rows.append('| %s | %s | %s | %s | %s |' % (m['id'], m.get('round', '?'), m['breaks_property'], cb, note))
tbl = '| seeded change (`seeded/<id>/`) | round | breaks | caught by | remarks |\n|---|---|---|---|---|\n' + '\n'.join(rows) + '\n'
p = '/verif/DESIGN.md'
s = open(p).read()
b, e = '<!-- seeded-table-begin -->\n', '<!-- seeded-table-end -->\n'
i, j = s.index(b) + len(b), s.index(e)
open(p, 'w').write(s[:i] + tbl + s[j:])
print(len(rows), 'rows')
